"""Plumbing: building the harness, running TLC, sharded trace validation, parsing reports."""
import json, os, re, shutil, subprocess, sys, time, hashlib
from concurrent.futures import ThreadPoolExecutor

ROOT = os.path.abspath(os.path.join(os.path.dirname(__file__), '..', '..'))
SPEC = os.path.join(ROOT, 'spec')
HARNESS = os.path.join(ROOT, 'harness')
HBIN = os.path.join(HARNESS, 'target', 'debug', 'verif-harness')
WORK = os.path.join(ROOT, 'work')
REPLAYS = os.path.join(ROOT, 'replays')
TLCJAR = '/opt/veriftools/tla/tla2tools.jar:/opt/veriftools/tla/CommunityModules-deps.jar'
NCPU = os.cpu_count() or 4


class ToolError(Exception):
    pass


def log(*a):
    print(*a, file=sys.stderr, flush=True)


BINDINGS = ['fn_swap', 'fn_reverse', 'fn_share', 'fn_maxspread', 'fn_slip']
UNBOUND = []      # function-level event kinds this build of the harness cannot produce


def _cargo_build(extra):
    env = dict(os.environ, CARGO_NET_OFFLINE='true')
    return subprocess.run(['cargo', 'build', '--offline', '--quiet'] + extra, cwd=HARNESS, env=env,
                          stdout=subprocess.PIPE, stderr=subprocess.STDOUT, text=True)


def build_harness():
    """Rebuild the harness (path dependencies on /repo: always the current working tree).

    The harness calls five pure functions of the repository directly (one cargo feature each).  If the tree has
    changed one of those signatures the full build fails; the harness is then built with the bindings that still
    compile, the function-level events of the others are not produced, and the property is decided at system
    level (and by the models) only - a changed signature must not turn every check into a tool error."""
    t0 = time.time()
    del UNBOUND[:]
    p = _cargo_build([])
    if p.returncode != 0:
        first = p.stdout
        if _cargo_build(['--no-default-features']).returncode != 0:
            raise ToolError('harness build failed:\n' + first[-4000:])
        good = []
        for f in BINDINGS:
            if _cargo_build(['--no-default-features', '--features', ','.join(good + [f])]).returncode == 0:
                good.append(f)
        p = _cargo_build(['--no-default-features'] + (['--features', ','.join(good)] if good else []))
        if p.returncode != 0:
            raise ToolError('harness build failed:\n' + p.stdout[-4000:])
        out = subprocess.run([HBIN, 'bindings', '--out', '/dev/stdout'], stdout=subprocess.PIPE, text=True).stdout
        UNBOUND.extend(l.split()[0] for l in out.splitlines() if l.endswith(' unbound'))
        log('[build] signature changed: function-level bindings NOT available for: %s' % ', '.join(UNBOUND))
    log('[build] harness %.1fs' % (time.time() - t0))


def harness(args, timeout=1800):
    p = subprocess.run([HBIN] + args, stdout=subprocess.PIPE, stderr=subprocess.PIPE, text=True, timeout=timeout)
    if p.returncode != 0:
        raise ToolError('harness %s failed (%d): %s' % (' '.join(args), p.returncode, p.stderr[-2000:]))
    return p.stderr


BIG_CONSTS = """CONSTANTS
  N0 <- Big0
  N1 <- Big1
  NAdd <- BAdd
  NSub <- BSub
  NMul <- BMul
  NDiv <- BDiv
  NMod <- BMod
  NLe <- BLe
  NOfInt <- BOfInt
  NSqrt <- BSqrt
  DFRAC <- BigD
  U128MAX <- BigU128
  U256MAX <- BigU256
"""


def int_consts(dfrac=10, u128=255, u256=65535):
    return """CONSTANTS
  N0 = 0
  N1 = 1
  NAdd <- IAdd
  NSub <- ISub
  NMul <- IMul
  NDiv <- IDiv
  NMod <- IMod
  NLe <- ILe
  NOfInt <- IOfInt
  NSqrt <- ISqrt
  DFRAC = %d
  U128MAX = %d
  U256MAX = %d
""" % (dfrac, u128, u256)


def run_tlc(module, cfg_text, workdir, workers=1, env=None, timeout=3600, xss='256m', heap=None, extra=None,
            gcthreads=None):
    """Run TLC on spec/<module>.tla with the given configuration text; returns stdout."""
    os.makedirs(workdir, exist_ok=True)
    cfg = os.path.join(workdir, module + '.cfg')
    with open(cfg, 'w') as f:
        f.write(cfg_text)
    cmd = ['java', '-Xss' + xss, '-XX:+UseParallelGC']
    if gcthreads:
        cmd.append('-XX:ParallelGCThreads=%d' % gcthreads)
    if heap:
        cmd.append('-Xmx' + heap)
    cmd += ['-cp', TLCJAR, 'tlc2.TLC', '-workers', str(workers), '-metadir', os.path.join(workdir, 'meta'),
            '-cleanup', '-noGenerateSpecTE', '-config', cfg]
    cmd += (extra or [])
    cmd.append(os.path.join(SPEC, module + '.tla'))
    e = dict(os.environ)
    e.update(env or {})
    try:
        p = subprocess.run(cmd, cwd=workdir, env=e, stdout=subprocess.PIPE, stderr=subprocess.STDOUT, text=True,
                           timeout=timeout)
    except subprocess.TimeoutExpired:
        raise ToolError('TLC timed out after %ds on %s' % (timeout, module))
    return p.stdout


def tlc_stats(out):
    m = re.search(r'(\d+) states generated, (\d+) distinct states found', out)
    if not m:
        return None
    return {'generated': int(m.group(1)), 'distinct': int(m.group(2))}


def tlc_failed(out):
    """TLC error text (evaluation error, invariant violation, parse error), or None."""
    m = re.search(r'^Error: .*', out, flags=re.M)
    if m:
        i = m.start()
        return out[i:i + 3000]
    return None


# ---------------------------------------------------------------------------------------------
# report parsing: TLC prints TLA+ tuples, possibly wrapped over several lines
# ---------------------------------------------------------------------------------------------
def _tuples(out):
    """Yield the text of every top-level << ... >> printed at the start of a line."""
    i = 0
    n = len(out)
    while True:
        j = out.find('<<', i)
        if j < 0:
            return
        if j > 0 and out[j - 1] != '\n':
            i = j + 2
            continue
        depth = 0
        k = j
        instr = False
        while k < n:
            c = out[k]
            if instr:
                if c == '\\':
                    k += 1
                elif c == '"':
                    instr = False
            elif c == '"':
                instr = True
            elif out.startswith('<<', k):
                depth += 1
                k += 1
            elif out.startswith('>>', k):
                depth -= 1
                k += 1
                if depth == 0:
                    break
            k += 1
        yield ' '.join(out[j:k + 1].split())
        i = k + 1


def parse_reports(out):
    """-> (reports, done) ; reports: dicts(tag, prop, clause, l, known, h); done: dict(n, apps) or None"""
    reps, done = [], None
    for t in _tuples(out):
        m = re.match(r'<<\s*"(VIOL|DEV)",\s*"([^"]*)",\s*"([^"]*)",\s*(\d+),\s*"([^"]*)",\s*"(.*)"\s*>>$', t)
        if m:
            reps.append({'tag': m.group(1), 'prop': m.group(2), 'clause': m.group(3), 'l': int(m.group(4)),
                         'known': m.group(5), 'h': m.group(6)})
            continue
        m = re.match(r'<<\s*"DONE",\s*(\d+),\s*\[(.*)\]\s*>>$', t)
        if m:
            apps = {}
            for pm in re.finditer(r'(\w+) \|-> <<([^>]*)>>', m.group(2)):
                body = pm.group(2).strip()
                apps[pm.group(1)] = [int(x) for x in body.split(',')] if body else []
            done = {'n': int(m.group(1)), 'apps': apps}
    return reps, done


def validate_trace(module, trace_path, workdir, shards=None, per_shard=300, timeout=3600, cfg_text=None,
                   reset_kind=None):
    """Shard an NDJSON trace, validate every shard with spec/<module>.tla (one TLC process per shard,
    -workers 1), and merge.  Event indices in the result are 0-based lines of the input file.

    reset_kind: events of this kind start an independent behaviour; shards are cut only there."""
    with open(trace_path) as f:
        lines = [ln for ln in f.read().split('\n') if ln.strip()]
    if not lines:
        raise ToolError('empty trace ' + trace_path)
    tla_lines = [strip_for_tla(ln) for ln in lines]
    # cut points: a world trace can be cut at a reset, or after any tx event (whose full post-state
    # becomes the synthetic reset that starts the next shard); a math trace can be cut anywhere
    if reset_kind:
        if ('"k":"%s"' % reset_kind) not in lines[0]:
            raise ToolError('trace does not start with a %s event' % reset_kind)
        starts = [i for i, ln in enumerate(lines)
                  if ('"k":"%s"' % reset_kind) in ln or (i > 0 and '"k":"tx"' in lines[i - 1])]
    else:
        starts = list(range(len(lines)))
    if shards is None:
        shards = max(1, min(NCPU, (len(lines) + per_shard - 1) // per_shard))
    target = (len(lines) + shards - 1) // shards
    cuts = [0]
    for s in starts:
        if s - cuts[-1] >= target:
            cuts.append(s)
    cuts.append(len(lines))
    pieces = [(cuts[i], cuts[i + 1]) for i in range(len(cuts) - 1) if cuts[i] < cuts[i + 1]]
    cfg = cfg_text or (BIG_CONSTS + ('  KeyBytes <- TraceKeyBytes\n  AddrOfIndex <- TraceAddrOfIndex\n  LEGACY = {}\n' if module == 'Trace_World' else '')
                       + 'SPECIFICATION Spec\nCHECK_DEADLOCK FALSE\n')

    def one(idx_piece):
        idx, (a, b) = idx_piece
        d = os.path.join(workdir, 'shard%02d' % idx)
        os.makedirs(d, exist_ok=True)
        tp = os.path.join(d, 'trace.ndjson')
        body = tla_lines[a:b]
        off = 0
        if reset_kind and ('"k":"%s"' % reset_kind) not in lines[a]:
            prev = json.loads(tla_lines[a - 1])
            k = a - 1
            while ('"k":"%s"' % reset_kind) not in lines[k]:
                k -= 1
            body = [json.dumps({'k': reset_kind, 'world': prev['post'], 'bytes': json.loads(lines[k]).get('bytes', {}),
                                'h': 'shard start'}, separators=(',', ':'))] + body
            off = 1
        with open(tp, 'w') as f:
            f.write('\n'.join(body) + '\n')
        out = run_tlc(module, cfg, d, workers=1, env={'TRACE': tp}, timeout=timeout, heap='3g', gcthreads=2)
        reps, done = parse_reports(out)
        if done is None or done['n'] != b - a + off:
            err = tlc_failed(out) or out[-3000:]
            raise ToolError('trace validation of %s[%d:%d] did not consume the whole trace:\n%s' % (trace_path, a, b, err))
        reps = [r for r in reps if r['l'] > off]
        for r in reps:
            r['i'] = a + r['l'] - 1 - off
        apps = {p: [a + l - 1 - off for l in ls if l > off] for p, ls in done['apps'].items()}
        return reps, apps, b - a

    t0 = time.time()
    with ThreadPoolExecutor(max_workers=min(NCPU, len(pieces))) as ex:
        results = list(ex.map(one, enumerate(pieces)))
    reps, apps, n = [], {}, 0
    for r, a, c in results:
        reps += r
        n += c
        for p, ls in a.items():
            apps.setdefault(p, []).extend(ls)
    log('[trace] %s: %d events, %d shards, %.1fs' % (module, n, len(pieces), time.time() - t0))
    return {'reports': reps, 'apps': apps, 'n': n, 'lines': lines}


def strip_for_tla(line):
    """Drop the fields the specification does not read (replay material, error text): JSON null is not
    representable in TLA+."""
    if '"raw"' not in line and '"setup"' not in line and '"text"' not in line:
        return line
    e = json.loads(line)
    for k in ('raw', 'setup', 'names', 'users', 'accounts'):
        e.pop(k, None)
    if e.get('k') != 'reset':
        e.pop('bytes', None)
    for k in ('res', 'ans'):
        if isinstance(e.get(k), dict):
            e[k].pop('text', None)
    return json.dumps(e, separators=(',', ':'))


def event_key(line):
    try:
        e = json.loads(line)
    except Exception:
        return hashlib.sha1(line.encode()).hexdigest()
    key = {k: v for k, v in e.items() if k not in ('r', 'r1', 'r2', 'h', 'post', 'diff')}
    return hashlib.sha1(json.dumps(key, sort_keys=True).encode()).hexdigest()


def load_known():
    """known_findings.jsonl -> list of dict (open findings only suppress; fixed entries suppress nothing)"""
    path = os.path.join(ROOT, 'known_findings.jsonl')
    out = []
    if os.path.exists(path):
        for ln in open(path):
            ln = ln.strip()
            if ln and not ln.startswith('#'):
                out.append(json.loads(ln))
    return out


def fresh_dir(path):
    shutil.rmtree(path, ignore_errors=True)
    os.makedirs(path, exist_ok=True)
    return path

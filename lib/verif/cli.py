"""Property table and the check / replay / selftest commands."""
import json, os, re, sys, time, random
from . import core, dirb
from .core import ToolError, log

# ---------------------------------------------------------------------------------------------
# property table
# ---------------------------------------------------------------------------------------------
# mc    : small-scope exhaustive TLC models (design level: the transcription refines the property)
# math  : function-level trace validation (real pure functions, production scale)
# world : system-level trace validation (real contracts in cw-multi-test)
PROPS = {
    'C01': dict(mc=[('MC_Pool', None), ('MC_Math', ['swap'])], math=['swap'], world=['kf1', 'random', 'withdraw', 'matrix']),
    'C02': dict(mc=[('MC_Pool', None)], world=['matrix', 'random']),
    'C03': dict(mc=[('MC_Pool', None)], world=['kf1', 'random', 'withdraw', 'matrix']),
    'C04': dict(mc=[('MC_Pool', None), ('MC_Math', ['withdraw'])], world=['random', 'withdraw']),
    'C05': dict(mc=[('MC_Pool', None), ('MC_Math', ['share', 'first'])], math=['share'], world=['random', 'matrix', 'withdraw']),
    'C06': dict(mc=[('MC_Pool', None), ('MC_Math', ['swap'])], math=['swap'], world=['random', 'matrix']),
    'C07': dict(mc=[('MC_Pool', None)], world=['random', 'matrix', 'withdraw']),
    'C08': dict(mc=[('MC_BigNat', None)], math=['arith'], level='exploration'),
    'C09': dict(mc=[('MC_Pool', None)], world=['matrix', 'random']),
    'C10': dict(mc=[('MC_Pool', None), ('MC_Math', ['belief', 'spread'])], math=['maxspread'], world=['random']),
    'C11': dict(mc=[('MC_Router', None)], world=['routes', 'random']),
    'C12': dict(mc=[('MC_Pool', None), ('MC_Math', ['reverse'])], math=['reverse'], world=['routes', 'random']),
    'C13': dict(mc=[('MC_Router', None)], world=['routes', 'random']),
    'C14': dict(mc=[('MC_Pool', None), ('MC_Factory', None)], world=['matrix', 'random']),
    'C15': dict(mc=[('MC_Pool', None), ('MC_Math', ['slip'])], math=['slip'], world=['random']),
    'C16': dict(mc=[('MC_Factory', None), ('MC_System', None)], world=['registry', 'matrix']),
    'C17': dict(mc=[('MC_Factory', None), ('MC_System', None)], world=['registry']),
    'C18': dict(mc=[('MC_BigNat', None)], math=['text'], level='exploration'),
    'C19': dict(mc=[('MC_Factory', None)], world=['registry']),
    'C20': dict(mc=[('MC_Pool', None)], world=['withdraw', 'random']),
}

# world driver sizes: (behaviours, steps) per tier
WORLD_N = {
    'random':   {'quick': (14, 80), 'thorough': (150, 120)},
    'matrix':   {'quick': (3, 0),   'thorough': (30, 0)},
    'routes':   {'quick': (3, 0),   'thorough': (30, 0)},
    'kf1':      {'quick': (2, 0),   'thorough': (20, 0)},
    'registry': {'quick': (8, 40),  'thorough': (80, 40)},
    'withdraw': {'quick': (16, 0),  'thorough': (160, 0)},
}

# unbounded TLAPS lemmas (spec/proofs/ArithLemmas.tla) that back a property's arithmetic clauses
PROOFS = {
    'C01': ['GrossExactOutsideWindow (the code formula never exceeds y*a/(x+a) outside the KF-1 window: the known-finding class is exact, for all naturals and all D)',
            'GrossUpperBound (inside the window the overshoot is < 1/D of a unit before flooring)',
            'FloorSwapKeepsProduct (what an integer-floor swap guarantees)'],
    'C03': ['ProvideKeepsShareValue', 'WithdrawKeepsShareValue', 'FloorSwapKeepsProduct'],
    'C04': ['RefundNeverMore', 'RefundAtMostDustLess'],
    'C05': ['ShareNeverMore', 'ShareAtMostOneLess'],
    'C06': ['GrossUpperBound', 'CommissionIdentity'],
    'C15': ['SlippageGuardSound (a provision the guard lets through is within (d0/d1)(1-t) < r0/r1 + 2/D, each side)'],
    'C10': ['BeliefAcceptedWithinLimit (accepted with a belief price: shortfall (E-rn)*D < (s+1)*E and E > offer/p - 1)',
            'BeliefRejectedOnlyBeyondLimit (rejected with a belief price: rn*D + s*E < E*D and E <= offer/p)',
            'SpreadAcceptedWithinLimit (spread-only: accepted only if spread*D < (s+1)*(return+spread))',
            'SpreadRejectedOnlyBeyondLimit (spread-only: rejected only if spread*D > s*(return+spread))'],
    'C12': ['ReverseNeverAboveClosedForm ((offer+x)*(y(1-c) - ask) <= x*y(1-c))',
            'ReverseAtMostRoundingBelow (the bound of PropsMath!C12_Reverse: at most one unit per truncating step below)'],
}
# properties whose checks also replay MC_System behaviours (whole deployment from scratch) into the contracts
DIRB_SYSTEM = ('C11', 'C13', 'C14', 'C16', 'C17')
PROOF_MODULE = {'C10': 'GuardLemmas', 'C12': 'GuardLemmas'}

MATH_N = {'quick': 1600, 'thorough': 24000}
# pure evaluation events (no formula re-derivation) are cheap: more of them
MATH_N_CHEAP = {'quick': 6000, 'thorough': 120000}

ASSUMPTIONS = [
    'contracts run natively against cw-multi-test 0.16.1 / cosmwasm-std 1.1.8 / cw20-base 1.0.0, not as wasm on a chain',
    'BigNat.tla (pure TLA+ big naturals) is the arithmetic oracle; self-tested by MC_BigNat and cross-checked by every trace event',
    'TLC, SANY, the Json/IOUtils community modules, rustc and the harness projection code are trusted',
    'small-scope exhaustiveness (scaled DFRAC and widths) is not a proof at production scale; the trace binding samples production scale',
]


def mc_math_cfg(fams, tier, dfrac=10):
    sfx = '_t' if tier == 'thorough' else '_q'
    c = core.int_consts(dfrac=dfrac)
    for name in ['XS', 'AS', 'RATES', 'DECS', 'WS', 'SS']:
        c += '  %s <- %s%s\n' % (name, name, sfx)
    c += '  FAMS = {%s}\n' % ', '.join('"%s"' % f for f in fams)
    c += 'INIT Init\nNEXT Next\nINVARIANT Inv\nCHECK_DEADLOCK FALSE\n'
    return c


def pool_kinds(pid, tier):
    """Pair kinds of MC_Pool: native/native, native/cw20, cw20/cw20 and the alias pair (a cw20 token and the bank denom
    spelled like its address).  Quick: one of the first three per property (all are covered across the properties),
    plus the alias pair for the properties that read the swap event's bare identifiers; thorough: all four."""
    if tier == 'thorough':
        return ['NN', 'NC', 'CC', 'AL']
    return [['NN', 'NC', 'CC'][int(pid[1:]) % 3]] + (['AL'] if pid in ('C02', 'C06') else [])


def mc_pool_cfg(kind, tier, full=True, depth=None):
    c = core.int_consts()
    c += '  KIND = "%s"\n' % kind
    c += '  AMTS = {0, 1, 2, 3}\n'
    c += '  MAXSTEPS = %d\n' % (depth or 3)
    c += '  COMMISSION = 1\n  FULL = %s\n  EXPORT = FALSE\n  KeyBytes <- MCKeyBytes\n  AddrOfIndex <- MCAddrOfIndex\n  LEGACY = {}\n' % ('TRUE' if full else 'FALSE')
    c += 'SPECIFICATION Spec\nVIEW View\nPROPERTY StepProp\nINVARIANT C20_State\nCHECK_DEADLOCK FALSE\n'
    return c


def mc_router_cfg(tier):
    c = core.int_consts()
    c += '  AMTS = {1, 2, 3}\n  MAXSTEPS = %d\n  MAXHOPS = %d\n  COMMISSION = 1\n  FOURPAIRS = %s\n' % (
        (2, 4, 'TRUE') if tier == 'thorough' else (2, 3, 'FALSE'))
    c += '  KeyBytes <- MCKeyBytes\n  AddrOfIndex <- MCAddrOfIndex\n  LEGACY = {}\n'
    c += 'SPECIFICATION Spec\nVIEW View\nPROPERTY StepProp\nCHECK_DEADLOCK FALSE\n'
    return c


def mc_system_cfg(tier):
    c = core.int_consts()
    c += '  MAXSTEPS = %d\n  COMMISSION = 1\n  EXPORT = FALSE\n' % (8 if tier == 'thorough' else 7)
    c += '  KeyBytes <- MCKeyBytes\n  AddrOfIndex <- MCAddrOfIndex\n  LEGACY = {}\n'
    c += 'SPECIFICATION Spec\nVIEW View\nPROPERTY StepProp\nINVARIANT StateInv\nCHECK_DEADLOCK FALSE\n'
    return c


def mc_factory_cfg(tier, legacy='{}'):
    c = core.int_consts()
    c += '  MAXSTEPS = %d\n  DefaultL = 2\n  MaxL = 3\n' % (5 if tier == 'thorough' else 4)
    c += '  KeyBytes <- MCKeyBytes\n  AddrOfIndex <- MCAddrOfIndex\n  LEGACY = %s\n' % legacy
    c += 'SPECIFICATION Spec\nVIEW View\nPROPERTY StepProp\nINVARIANT StateInv\nCHECK_DEADLOCK FALSE\n'
    return c


def run_proofs(pid):
    """Re-check the TLAPS lemmas behind a property (all naturals, all scales D >= 1)."""
    if pid not in PROOFS:
        return None
    import subprocess, re
    t0 = time.time()
    d = os.path.join(core.SPEC, 'proofs')
    try:
        mod = PROOF_MODULE.get(pid, 'ArithLemmas')
        p = subprocess.run(['tlapm', '--threads', '8', mod + '.tla'], cwd=d, stdout=subprocess.PIPE,
                           stderr=subprocess.STDOUT, text=True, timeout=900)
    except subprocess.TimeoutExpired:
        raise ToolError('tlapm timed out')
    m = re.search(r'All (\d+) obligations proved', p.stdout)
    if not m:
        raise ToolError('TLAPS lemmas not proved:\n' + p.stdout[-2000:])
    log('[proof] %s: %s obligations proved, %.1fs' % (mod, m.group(1), time.time() - t0))
    return {'module': 'spec/proofs/%s.tla' % mod, 'obligations': int(m.group(1)), 'discharged': int(m.group(1)),
            'lemmas_for_this_property': PROOFS[pid], 'checker_cmd': 'tlapm --threads 8 %s.tla' % mod,
            'note': 'lemmas over Int for all naturals and all D >= 1; they cover success paths of the arithmetic core, '
                    'not the code binding (which is the trace layer)'}


def run_mc(pid, tier, workdir):
    """Run the design-level models of a property.  A failure here is a defect of the model (or of the
    property's reading), never of the code: it is reported as a tool error, not as a violation."""
    total = {'states': 0, 'transitions': 0, 'models': []}
    if os.environ.get('VERIF_TRACES_ONLY') or os.environ.get('VERIF_SKIP_MC'):
        # developer switches for seed sweeps of the trace layer (the models do not depend on the seed);
        # VERIF_SKIP_MC keeps the replay of model behaviours into the code (direction B)
        return total
    models = list(PROPS[pid].get('mc', []))
    if tier == 'thorough' and pid in ('C03', 'C07', 'C11', 'C13') and not any(m == 'MC_System' for m, _ in models):
        models.append(('MC_System', None))
    if tier == 'thorough' and pid in ('C01', 'C03', 'C07', 'C14') and not any(m == 'MC_Router' for m, _ in models):
        models.append(('MC_Router', None))
    for module, fams in models:
        if module == 'MC_Math':
            runs = [(fams, mc_math_cfg(fams, tier))]
        elif module == 'MC_Pool':
            kinds = pool_kinds(pid, tier)
            runs = [('kind=%s all shapes depth 3' % k, mc_pool_cfg(k, tier)) for k in kinds]
            if tier == 'thorough':
                # one step deeper over the well-formed operation shapes
                runs += [('kind=%s well-formed shapes depth 4' % k, mc_pool_cfg(k, tier, full=False, depth=4)) for k in kinds]
        elif module == 'MC_Router':
            # the deep router scope (4 pairs, 4 hops; the heaviest model) is run by the router properties themselves;
            # the pool properties that add the router model in the thorough tier use its 3-pair scope
            rt = tier if pid in ('C11', 'C13') else 'quick'
            runs = [('4 pairs, routes of 1..4 hops' if rt == 'thorough' else '3 pairs, routes of 1..3 hops', mc_router_cfg(rt))]
        elif module == 'MC_BigNat':
            # self-test of the arithmetic oracle itself (its states are test batches, not system states)
            runs = [('oracle self-test', 'CONSTANT QUICK = %s\nINIT Init\nNEXT Next\nINVARIANT Inv\nCHECK_DEADLOCK FALSE\n' % ('FALSE' if tier == 'thorough' else 'TRUE'))]
        elif module == 'MC_System':
            runs = [('whole deployment from scratch, depth %d' % (8 if tier == 'thorough' else 7), mc_system_cfg(tier))]
        elif module == 'MC_Factory':
            runs = [('registry, byte-sequence identifiers, pages 2/3', mc_factory_cfg(tier))]
        else:
            raise ToolError('unknown model ' + module)
        for what, cfg in runs:
            t0 = time.time()
            out = core.run_tlc(module, cfg, os.path.join(workdir, 'mc_' + module), workers=min(core.NCPU, 16),
                               timeout=6000, xss='64m', heap='8g')
            err = core.tlc_failed(out)
            st = core.tlc_stats(out)
            if err or not st:
                raise ToolError('model %s (%s) failed:\n%s' % (module, what, err or out[-2000:]))
            total['states'] += st['distinct']
            total['transitions'] += st['generated']
            total['models'].append({'module': module, 'scope': what, 'exhaustive_within_scope': True, 'distinct_states': st['distinct'],
                                    'transitions': st['generated'], 'wall_s': round(time.time() - t0, 1)})
            log('[mc] %s %s: %d distinct states, %d transitions, %.1fs' % (module, what, st['distinct'], st['generated'], time.time() - t0))
    return total


def classify(pid, reports, known_entries):
    """Split the VIOL reports of property pid into known findings and fresh violations."""
    open_classes = {k['class']: k for k in known_entries if k.get('property') == pid and k.get('status') == 'open'}
    known, fresh = {}, []
    for r in reports:
        if r['tag'] != 'VIOL' or r['prop'] != pid:
            continue
        if r['known'] and r['known'] in open_classes:
            known.setdefault(r['known'], []).append(r)
        else:
            fresh.append(r)
    return known, fresh, open_classes


def scenario_prefix(lines, i):
    """The scenario (setup + raw operations) that leads to event i of a world trace."""
    j = i
    while j >= 0 and '"k":"reset"' not in lines[j]:
        j -= 1
    reset = json.loads(lines[j])
    ops = [json.loads(lines[k])['raw'] for k in range(j + 1, i + 1)]
    return {'tag': reset.get('tag', 'replay'), 'setup': reset['setup'], 'ops': ops}


def write_replay(pid, seed, n, stage, r):
    os.makedirs(core.REPLAYS, exist_ok=True)
    path = os.path.join(core.REPLAYS, '%s-%d-%d.json' % (pid, seed, n))
    body = {'property': pid, 'stage': stage, 'clause': r['clause']}
    if stage == 'math':
        body['events'] = [r['event']]
    else:
        body['scenario'] = r['scenario']
    with open(path, 'w') as f:
        json.dump(body, f)
    return path


def check(pid, tier, seed):
    t0 = time.time()
    spec = PROPS[pid]
    workdir = core.fresh_dir(os.path.join(core.WORK, '%s-%s-%d' % (pid, tier, os.getpid())))
    known_entries = core.load_known()
    ev = {'property_id': pid, 'tier': tier, 'seed': seed,
          'level': spec.get('level', 'model_checking' if spec.get('mc') else 'exploration')}
    cov = {}
    try:
        core.build_harness()
        mc = run_mc(pid, tier, workdir)
        proofs = run_proofs(pid)
        reports, samples, n_events, apps_idx, lines_all, stages = [], [], 0, [], [], []
        devs = 0
        # ---- function-level traces -------------------------------------------------------------
        math_kinds = [k for k in spec.get('math', []) if k not in core.UNBOUND]
        if spec.get('math') and len(math_kinds) < len(spec['math']):
            cov['function_level_unbound'] = [k for k in spec['math'] if k in core.UNBOUND]
            stages.append({'stage': 'math', 'kinds': cov['function_level_unbound'], 'events': 0, 'applicable': 0,
                           'note': 'the directly called function changed its signature on this tree: no function-level events; decided at system level'})
        if math_kinds:
            tp = os.path.join(workdir, 'math.ndjson')
            n_math = (MATH_N_CHEAP if pid in ('C08', 'C18') else MATH_N)[tier]
            core.harness(['math', '--seed', str(seed), '--n', str(n_math), '--kinds', ','.join(math_kinds),
                          '--out', tp])
            res = core.validate_trace('Trace_Math', tp, os.path.join(workdir, 'tv_math'))
            for r in res['reports']:
                r['stage'] = 'math'
                r['event'] = json.loads(res['lines'][r['i']])
            reports += res['reports']
            n_events += res['n']
            idx = res['apps'].get(pid, [])
            apps_idx += [('math', i, core.event_key(res['lines'][i])) for i in idx]
            devs += sum(1 for r in res['reports'] if r['tag'] == 'DEV')
            for i in idx[:3]:
                e = json.loads(res['lines'][i])
                samples.append({'stage': 'math', 'call': e.get('k'), 'input': e.get('h'), 'observed': e.get('r', e.get('r1'))})
            stages.append({'stage': 'math', 'kinds': spec['math'], 'events': res['n'], 'applicable': len(idx)})
        # ---- direction B: behaviours of the small-scope models executed by the real contracts -------
        dirb_pool = any(m == 'MC_Pool' for m, _ in spec.get('mc', []))
        dirb_sys = pid in DIRB_SYSTEM
        if (dirb_pool or dirb_sys) and not os.environ.get('VERIF_TRACES_ONLY'):
            scs, kinds = [], []
            if dirb_pool:
                kinds = pool_kinds(pid, tier)
                num, depth = (3000, 10) if tier == 'thorough' else (240 if len(kinds) == 1 else 160, 8)
                for k in kinds:
                    # three quarters of the behaviours over the well-formed shapes, one quarter over all shapes
                    for full, share in ((False, 3), (True, 1)):
                        cfg = mc_pool_cfg(k, tier, full=full).replace('INVARIANT C20_State\n', '').replace('PROPERTY StepProp\n', '').replace('EXPORT = FALSE', 'EXPORT = TRUE')
                        cfg = re.sub(r'MAXSTEPS = \d+', 'MAXSTEPS = %d' % depth, cfg)
                        bs = dirb.generate(k, max(1, num * share // 4), depth, seed, os.path.join(workdir, 'simB_%s_%s' % (k, full)), cfg)
                        scs += dirb.scenarios(k, bs, 'modelB-%d-%s' % (seed, 'all' if full else 'wf'))
            if dirb_sys:
                # the whole deployment from scratch: creations, allowances, provisions, swaps, routes, decimals
                # re-registrations and withdrawals in the orders TLC draws
                num, depth = (1500, 14) if tier == 'thorough' else (60, 12)
                cfg = mc_system_cfg(tier).replace('INVARIANT StateInv\n', '').replace('PROPERTY StepProp\n', '').replace('EXPORT = FALSE', 'EXPORT = TRUE')
                cfg = re.sub(r'MAXSTEPS = \d+', 'MAXSTEPS = %d' % depth, cfg)
                bs = dirb.generate('SYS', num, depth, seed, os.path.join(workdir, 'simB_SYS'), cfg, module='MC_System')
                scs += dirb.scenarios('SYS', bs, 'modelB-%d' % seed)
                kinds = kinds + ['SYS']
            sp = os.path.join(workdir, 'modelB.scenarios')
            with open(sp, 'w') as f:
                f.write('\n'.join(json.dumps(x) for x in scs) + '\n')
            tp = os.path.join(workdir, 'modelB.ndjson')
            core.harness(['scenario', '--in', sp, '--out', tp])
            res = core.validate_trace('Trace_World', tp, os.path.join(workdir, 'tv_modelB'), reset_kind='reset', per_shard=350)
            for r in res['reports']:
                r['stage'] = 'world'
                r['scenario'] = scenario_prefix(res['lines'], r['i'])
            reports += res['reports']
            n_events += res['n']
            devs += sum(1 for r in res['reports'] if r['tag'] == 'DEV')
            idx = res['apps'].get(pid, [])
            apps_idx += [('modelB', i, core.event_key(res['lines'][i])) for i in idx]
            stages.append({'stage': 'model-behaviours-replayed (TLC simulate -> real contracts)', 'kinds': kinds,
                           'behaviours': len(scs), 'events': res['n'], 'applicable': len(idx)})
            cov['behaviours_replayed_into_impl'] = len(scs)
        # ---- system-level traces ---------------------------------------------------------------
        for driver in spec.get('world', []):
            nb, steps = WORLD_N[driver][tier]
            tp = os.path.join(workdir, 'world_%s.ndjson' % driver)
            core.harness(['world', '--driver', driver, '--seed', str(seed), '--behaviours', str(nb), '--steps', str(steps),
                          '--out', tp])
            res = core.validate_trace('Trace_World', tp, os.path.join(workdir, 'tv_' + driver), reset_kind='reset', per_shard=350)
            for r in res['reports']:
                r['stage'] = 'world'
                r['scenario'] = scenario_prefix(res['lines'], r['i'])
            reports += res['reports']
            n_events += res['n']
            devs += sum(1 for r in res['reports'] if r['tag'] == 'DEV')
            idx = res['apps'].get(pid, [])
            apps_idx += [('world-' + driver, i, core.event_key(res['lines'][i])) for i in idx]
            for i in idx[:2]:
                e = json.loads(res['lines'][i])
                samples.append({'stage': 'world-' + driver, 'step': e.get('h', '')[:400],
                                'outcome': (e.get('res') or e.get('ans') or {}).get('why', '') or 'ok'})
            stages.append({'stage': 'world-' + driver, 'behaviours': nb, 'events': res['n'], 'applicable': len(idx)})
        # ---- verdict ---------------------------------------------------------------------------
        known, fresh, open_classes = classify(pid, reports, known_entries)
        distinct = len(set(k for _, _, k in apps_idx))
        cov.update({
            'states': mc['states'], 'transitions': mc['transitions'], 'models': mc['models'],
            'traces_validated_against_impl': n_events,
            'evaluations': n_events + mc['transitions'],
            'distinct_nontrivial': distinct,
            'rule': 'an implementation event is non-trivial when the antecedent of a clause of the property holds on it '
                    '(e.g. the call succeeded, or was rejected by the specific guard); distinct = distinct (call, operands); '
                    'model states are counted separately under states/transitions',
            'samples': samples or [{'note': 'model only'}],
            'stages': stages,
            'deviations_from_reference_model': devs,
            'known_finding_hits': {k: len(v) for k, v in known.items()},
            'proofs': proofs,
            'exhaustive': False,
            'checker_cmd': 'bin/check %s --tier %s' % (pid, tier),
        })
        if mc['states'] == 0 or ev['level'] == 'exploration':
            # exploration-level checks: the only "model" run is the oracle's self-test, not a system state space
            cov.pop('states'); cov.pop('transitions')
            cov['evaluations'] = n_events
            cov['oracle_selftest'] = cov.pop('models')
        ev['coverage'] = cov
        ev['assumptions'] = ASSUMPTIONS
        ev['violations'] = len(fresh)
        ev['wall_s'] = round(time.time() - t0, 1)
        rc = 0
        for cls, rs in known.items():
            k = open_classes[cls]
            print('KNOWN-FINDING: property=%s %s [%s] hits=%d e.g. %s' % (pid, k['what'], cls, len(rs), rs[0]['h'][:160]))
        for n, r in enumerate(fresh[:20]):
            path = write_replay(pid, seed, n, r['stage'], r)
            print('VIOLATION property=%s replay=%s' % (pid, path))
            print('  clause=%s %s' % (r['clause'], r['h'][:300]))
            rc = 1
        if rc == 0 and distinct < 2:
            raise ToolError('vacuous run: property %s was exercised by %d distinct implementation events' % (pid, distinct))
        write_evidence(pid, ev)
        if devs:
            log('[note] %d deviations between the code and the reference model (diagnostic, not an alarm)' % devs)
            for r in [r for r in reports if r['tag'] == 'DEV'][:5]:
                log('   DEV %s %s' % (r['clause'], r['h'][:200]))
        log('[done] %s %s rc=%d %.1fs' % (pid, tier, rc, time.time() - t0))
        return rc
    finally:
        import shutil
        if not os.environ.get('VERIF_KEEP'):
            shutil.rmtree(workdir, ignore_errors=True)


def write_evidence(pid, ev):
    d = os.path.join(core.ROOT, 'evidence')
    os.makedirs(d, exist_ok=True)
    with open(os.path.join(d, pid + '.json'), 'w') as f:
        json.dump(ev, f, indent=1, sort_keys=True)
        f.write('\n')


def replay(path):
    with open(path) as f:
        rp = json.load(f)
    pid = rp['property']
    workdir = core.fresh_dir(os.path.join(core.WORK, 'replay-%d' % os.getpid()))
    core.build_harness()
    if rp['stage'] == 'math':
        src = os.path.join(workdir, 'in.ndjson')
        with open(src, 'w') as f:
            for e in rp['events']:
                f.write(json.dumps({'k': e['k'], 'args': e['args']}) + '\n')
        tp = os.path.join(workdir, 'out.ndjson')
        core.harness(['replay-math', '--in', src, '--out', tp])
        res = core.validate_trace('Trace_Math', tp, os.path.join(workdir, 'tv'))
    elif rp['stage'] == 'world':
        src = os.path.join(workdir, 'scenario.json')
        with open(src, 'w') as f:
            f.write(json.dumps(rp['scenario']) + '\n')
        tp = os.path.join(workdir, 'out.ndjson')
        core.harness(['scenario', '--in', src, '--out', tp])
        res = core.validate_trace('Trace_World', tp, os.path.join(workdir, 'tv'), reset_kind='reset')
    else:
        raise ToolError('unknown replay stage ' + str(rp['stage']))
    known, fresh, open_classes = classify(pid, res['reports'], core.load_known())
    for cls, rs in known.items():
        print('KNOWN-FINDING: property=%s %s [%s]' % (pid, open_classes[cls]['what'], cls))
    for r in fresh:
        print('VIOLATION property=%s replay=%s' % (pid, os.path.abspath(path)))
        print('  clause=%s %s' % (r['clause'], r['h'][:300]))
    return 1 if fresh else 0


def selftest(full):
    """Show that the binding binds: corrupted or truncated traces of the real code must be rejected, and the
    models must exhibit the repaired defects when these are switched back on (LEGACY)."""
    workdir = core.fresh_dir(os.path.join(core.WORK, 'selftest-%d' % os.getpid()))
    core.build_harness()
    ok = True

    def expect(name, cond, detail=''):
        nonlocal ok
        print('%s selftest %s %s' % ('PASS' if cond else 'FAIL', name, detail))
        ok = ok and cond

    # ---- a good system-level trace, then four corruptions of it
    tp = os.path.join(workdir, 'good.ndjson')
    core.harness(['world', '--driver', 'random', '--seed', '12', '--behaviours', '2', '--steps', '50', '--out', tp])
    lines = [l for l in open(tp).read().split('\n') if l.strip()]
    res = core.validate_trace('Trace_World', tp, os.path.join(workdir, 'tv0'), reset_kind='reset', shards=1)
    viol = [r for r in res['reports'] if r['tag'] == 'VIOL' and not r['known']]
    devs = [r for r in res['reports'] if r['tag'] == 'DEV']
    expect('good-trace-accepted', not viol and not devs, '(%d events)' % res['n'])
    evs = [json.loads(l) for l in lines]
    # successful swaps followed by another successful transaction (the reference step of a *failed* successor compares
    # outcomes only, so a dropped event before it shows up in the property clauses but not as a deviation)
    swaps = [i for i, e in enumerate(evs) if e['k'] == 'tx' and e['res']['ok'] and any(x.get('action') == 'swap' for x in e['res']['events'])
             and i + 1 < len(evs) and evs[i + 1]['k'] == 'tx' and evs[i + 1]['res']['ok']]

    def run_variant(name, mutate, want_props):
        es = [json.loads(l) for l in lines]
        es = mutate(es)
        p = os.path.join(workdir, name + '.ndjson')
        with open(p, 'w') as f:
            f.write('\n'.join(json.dumps(e, separators=(',', ':')) for e in es) + '\n')
        r = core.validate_trace('Trace_World', p, os.path.join(workdir, 'tv_' + name), reset_kind='reset', shards=1)
        props = sorted(set(x['prop'] for x in r['reports'] if x['tag'] == 'VIOL'))
        nd = sum(1 for x in r['reports'] if x['tag'] == 'DEV')
        expect(name, any(p in props for p in want_props) and nd > 0, 'violations=%s deviations=%d' % (props, nd))

    if swaps:
        i = swaps[len(swaps) // 2]

        def corrupt_balance(es):
            # one unit appears from nowhere in one recorded balance of the trader
            e = es[i]
            caller = e['raw']['caller']
            for d, accts in e['post']['bank'].items():
                limbs = accts[caller]
                accts[caller] = [(limbs[0] + 1) if limbs else 1] + limbs[1:]
                break
            return es

        def corrupt_reported(es):
            for x in es[i]['res']['events']:
                if x.get('action') == 'swap':
                    l = x['return_amount']
                    x['return_amount'] = [(l[0] + 1) if l else 1] + l[1:]
            return es

        def corrupt_outcome(es):
            es[i]['res']['ok'] = False
            es[i]['res']['why'] = 'err:other'
            es[i]['res']['events'] = []
            return es

        def drop_event(es):
            return es[:i] + es[i + 1:]

        run_variant('corrupt-one-balance', corrupt_balance, ['C07', 'C02'])
        run_variant('corrupt-reported-amount', corrupt_reported, ['C02', 'C06'])
        run_variant('corrupt-outcome', corrupt_outcome, ['C07'])
        run_variant('drop-one-event', drop_event, ['C07', 'C02', 'C01', 'C03'])
    else:
        expect('good-trace-has-swaps', False)

    # ---- function level: a result off by one unit
    mp = os.path.join(workdir, 'm.ndjson')
    core.harness(['math', '--seed', '11', '--n', '60', '--kinds', 'swap,arith', '--out', mp])
    es = [json.loads(l) for l in open(mp).read().split('\n') if l.strip()]
    for e in es:
        if e['k'] == 'arith' and e['r']['ok'] and e['op'] == 'add':
            v = e['r']['v']
            e['r']['v'] = [(v[0] ^ 1) if v else 1] + v[1:]
            break
    with open(mp, 'w') as f:
        f.write('\n'.join(json.dumps(e, separators=(',', ':')) for e in es) + '\n')
    r = core.validate_trace('Trace_Math', mp, os.path.join(workdir, 'tvm'), shards=1)
    expect('corrupt-arith-result', any(x['prop'] == 'C08' and x['tag'] == 'VIOL' for x in r['reports']))

    if full:
        # ---- the models see the original defects when they are switched back on
        for leg, module, cfg in [
            ('{"R1"}', 'MC_Pool', mc_pool_cfg('CC', 'quick').replace('LEGACY = {}', 'LEGACY = {"R1"}')),
            ('{"R2"}', 'MC_Factory', mc_factory_cfg('quick', '{"R2"}')),
            ('{"R3"}', 'MC_Factory', mc_factory_cfg('quick', '{"R3"}')),
        ]:
            out = core.run_tlc(module, cfg, os.path.join(workdir, 'leg'), workers=min(core.NCPU, 16), timeout=1800, xss='64m', heap='8g')
            expect('model-exhibits-defect LEGACY=%s' % leg, 'is violated' in out, module)
    import shutil
    shutil.rmtree(workdir, ignore_errors=True)
    return 0 if ok else 2


def main(argv):
    if not argv:
        print(__doc__)
        return 2
    tier = os.environ.get('VERIF_TIER', 'quick')
    if '--tier' in argv:
        tier = argv[argv.index('--tier') + 1]
    seed = int(os.environ.get('VERIF_SEED', '1'))
    try:
        if argv[0] == 'replay':
            return replay(argv[1])
        if argv[0] == 'selftest':
            return selftest('--full' in argv)
        if argv[0] in PROPS:
            return check(argv[0], tier, seed)
        print('unknown property or command: ' + argv[0], file=sys.stderr)
        return 2
    except ToolError as e:
        print('TOOL-ERROR: ' + str(e), file=sys.stderr)
        return 2

-------------------------------- MODULE World --------------------------------
(***************************************************************************)
(* The abstract state ("world") of a deployment and its accessors.         *)
(*                                                                         *)
(*   w.bank   [denom -> [account -> N]]            bank module balances    *)
(*   w.tok    [addr  -> [bal: [account -> N], supply: N, decimals: Int,    *)
(*                       minter: STRING, allow: SUBSET <<owner,spender,N>>]]*)
(*                                                  cw20-base tokens (LP   *)
(*                                                  tokens included)       *)
(*   w.pair   [addr  -> [a0, a1: AssetInfo, d0, d1: Int, lp: addr,         *)
(*                       commission: N (atomics), wl: SUBSET account,      *)
(*                       m0, m1: N]]                each pair's own state  *)
(*   w.fac    [addr, owner, pair_code, token_code, native: [denom -> Int], *)
(*             reg: Seq(entry) in registry-key order]                      *)
(*   w.router addr                                                         *)
(*                                                                         *)
(* AssetInfo == [native: BOOLEAN, id: STRING] (denom, or cw20 address).    *)
(* Reserves are not state: they are the pair address's balances.           *)
(* The same shape is produced by the harness projection of the real        *)
(* contracts (Canon converts the JSON form) and by the model's actions.    *)
(***************************************************************************)
EXTENDS PropsMath, Sequences, FiniteSets, TLC

Range(s) == {s[i] : i \in DOMAIN s}

\* absent optional account / identifier (the numeric None of Formulas carries N0 and cannot sit in a set with strings)
NoneS == [some |-> FALSE, v |-> ""]
NoneI == [some |-> FALSE, v |-> 0]          \* absent optional small integer (page limit, code id)

Native(d) == [native |-> TRUE,  id |-> d]
Token(t)  == [native |-> FALSE, id |-> t]

\* JSON projection (arrays for possibly-empty collections) -> canonical world
Canon(j) ==
    [ bank |-> j.bank,
      tok  |-> [t \in DOMAIN j.tok |->
                  [bal |-> j.tok[t].bal, supply |-> j.tok[t].supply, decimals |-> j.tok[t].decimals,
                   minter |-> j.tok[t].minter,
                   allow |-> {<<r.owner, r.spender, r.amount>> : r \in Range(j.tok[t].allow)}]],
      pair |-> [a \in {p.addr : p \in Range(j.pair)} |->
                  LET p == CHOOSE q \in Range(j.pair) : q.addr = a IN
                  [a0 |-> p.a0, a1 |-> p.a1, d0 |-> p.d0, d1 |-> p.d1,
                   lp |-> p.lp,               \* the cw20 contract instantiated as this pair's LP token (a fact of the deployment)
                   self_lp |-> p.self_lp,     \* what the pair reports as its LP token
                   commission |-> p.commission, wl |-> Range(p.wl), m0 |-> p.m0, m1 |-> p.m1]],
      fac  |-> [addr |-> j.fac.addr, owner |-> j.fac.owner,
                pair_code |-> j.fac.pair_code, token_code |-> j.fac.token_code,
                native |-> [d \in {n.denom : n \in Range(j.fac.native)} |->
                              (CHOOSE n \in Range(j.fac.native) : n.denom = d).decimals],
                reg |-> [i \in DOMAIN j.fac.reg |->
                           LET e == j.fac.reg[i] IN
                           [key |-> e.key, a0 |-> e.a0, a1 |-> e.a1, pair |-> e.pair, lp |-> e.lp,
                            d0 |-> e.d0, d1 |-> e.d1, commission |-> e.commission,
                            wl |-> Range(e.wl), m0 |-> e.m0, m1 |-> e.m1]]],
      router |-> j.router,
      nextc |-> j.nextc,
      light |-> j.light ]

Denoms(w) == DOMAIN w.bank
Tokens(w) == DOMAIN w.tok
Pairs(w)  == DOMAIN w.pair
Accts(w)  == UNION {DOMAIN w.bank[d] : d \in Denoms(w)} \cup UNION {DOMAIN w.tok[t].bal : t \in Tokens(w)}
LpTokens(w) == {w.pair[p].lp : p \in Pairs(w)}
AllAssets(w) == {Native(d) : d \in Denoms(w)} \cup {Token(t) : t \in Tokens(w)}
NonLpAssets(w) == {Native(d) : d \in Denoms(w)} \cup {Token(t) : t \in Tokens(w) \ LpTokens(w)}

Bal(w, info, a) ==
    IF info.native
    THEN IF info.id \in Denoms(w) /\ a \in DOMAIN w.bank[info.id] THEN w.bank[info.id][a] ELSE N0
    ELSE IF info.id \in Tokens(w) /\ a \in DOMAIN w.tok[info.id].bal THEN w.tok[info.id].bal[a] ELSE N0

Supply(w, t) == IF t \in Tokens(w) THEN w.tok[t].supply ELSE N0
Allow(w, t, o, s) ==
    IF t \in Tokens(w) /\ \E x \in w.tok[t].allow : x[1] = o /\ x[2] = s
    THEN (CHOOSE x \in w.tok[t].allow : x[1] = o /\ x[2] = s)[3] ELSE N0

KnownAsset(w, info) == IF info.native THEN info.id \in Denoms(w) ELSE info.id \in Tokens(w)

\* reserves of pair p (an address in Pairs(w))
Res0(w, p) == Bal(w, w.pair[p].a0, p)
Res1(w, p) == Bal(w, w.pair[p].a1, p)
LpSupply(w, p) == Supply(w, w.pair[p].lp)
\* position (0 / 1) of an asset in pair p, or -1
PosIn(w, p, info) == IF w.pair[p].a0 = info THEN 0 ELSE IF w.pair[p].a1 = info THEN 1 ELSE -1
InfoAt(w, p, i) == IF i = 0 THEN w.pair[p].a0 ELSE w.pair[p].a1
DecAt(w, p, i)  == IF i = 0 THEN w.pair[p].d0 ELSE w.pair[p].d1
ResAt(w, p, i)  == IF i = 0 THEN Res0(w, p) ELSE Res1(w, p)
\* asset of pair p named by a rendered identifier (denom or address), as swap events report it
InfoById(w, p, id) == IF w.pair[p].a0.id = id THEN w.pair[p].a0 ELSE w.pair[p].a1
HasId(w, p, id) == w.pair[p].a0.id = id \/ w.pair[p].a1.id = id

\* big sums over finite sets of accounts
RECURSIVE SumOver(_, _, _)
SumOver(w, info, S) ==
    IF S = {} THEN N0
    ELSE LET a == CHOOSE x \in S : TRUE IN NAdd(Bal(w, info, a), SumOver(w, info, S \ {a}))
Total(w, info) == SumOver(w, info, Accts(w))

\* attached funds: a sequence of <<denom, amount>>
RECURSIVE FundsOfFrom(_, _, _)
FundsOfFrom(funds, d, i) ==
    IF i > Len(funds) THEN N0
    ELSE NAdd(IF funds[i][1] = d THEN funds[i][2] ELSE N0, FundsOfFrom(funds, d, i + 1))
FundsOf(funds, d) == FundsOfFrom(funds, d, 1)
HasCoin(funds, d) == \E i \in DOMAIN funds : funds[i][1] = d

\* registry lookups (by unordered asset set)
SameSet(e, x, y) == (e.a0 = x /\ e.a1 = y) \/ (e.a0 = y /\ e.a1 = x)
RegHas(w, x, y) == \E i \in DOMAIN w.fac.reg : SameSet(w.fac.reg[i], x, y)
RegEntry(w, x, y) == w.fac.reg[CHOOSE i \in DOMAIN w.fac.reg : SameSet(w.fac.reg[i], x, y)]
RegPairs(w) == {w.fac.reg[i].pair : i \in DOMAIN w.fac.reg}

\* observable equality of two worlds (everything the properties talk about)
SameWorld(w1, w2) == w1 = w2
=============================================================================

CONSTANTS
  N0 = 0
  N1 = 1
  NAdd <- IAdd
  NSub <- ISub
  NMul <- IMul
  NDiv <- IDiv
  NMod <- IMod
  NLe <- ILe
  NOfInt <- IOfInt
  NSqrt <- ISqrt
  DFRAC = 10
  U128MAX = 255
  U256MAX = 65535
  XS <- XS_q
  AS <- AS_q
  RATES <- RATES_q
  DECS <- DECS_q
  WS <- WS_q
  SS <- SS_q
INIT Init
NEXT Next
INVARIANT Inv
CHECK_DEADLOCK FALSE

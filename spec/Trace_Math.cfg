CONSTANTS
  N0 <- Big0
  N1 <- Big1
  NAdd <- BAdd
  NSub <- BSub
  NMul <- BMul
  NDiv <- BDiv
  NMod <- BMod
  NLe <- BLe
  NOfInt <- BOfInt
  NSqrt <- BSqrt
  DFRAC <- BigD
  U128MAX <- BigU128
  U256MAX <- BigU256
SPECIFICATION Spec
CHECK_DEADLOCK FALSE

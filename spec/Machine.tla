------------------------------- MODULE Machine -------------------------------
(***************************************************************************)
(* The system as a state machine over the world of World.tla.              *)
(*                                                                         *)
(* Execution model of a CosmWasm chain, as the contracts see it: a         *)
(* transaction is a message sent by an account; a contract's handler       *)
(* returns new contract state plus an ordered list of messages that are    *)
(* executed depth-first in that order; any error or panic anywhere aborts  *)
(* the whole transaction (the world is unchanged).  A multi-hop route is   *)
(* therefore the same chain of router -> router -> pair / cw20 -> pair ->  *)
(* bank / cw20 steps as in the code, not one atomic "swap through route"   *)
(* action.                                                                 *)
(*                                                                         *)
(* Handlers are transcriptions of                                          *)
(*   contracts/halo-pair/src/contract.rs, contracts/halo-factory/src/      *)
(*   contract.rs + state.rs, contracts/halo-router/src/{contract,          *)
(*   operations,assert}.rs, and of the environment they run in:            *)
(*   cw20-base 1.0.0 (transfer, transfer_from, send, mint, burn,           *)
(*   allowances) and the cw-multi-test 0.16.1 bank module.                 *)
(* including the order of their checks.  Deliberately not modelled: gas,   *)
(* event attributes the properties never mention, cw20 marketing / expiry  *)
(* / minter cap, cw2 version items, IBC / staking modules, address         *)
(* validation (operations only name accounts of the universe).             *)
(*                                                                         *)
(* Messages                                                                *)
(*   [t |-> "bank", dest, coins]            coins: Seq(<<denom, amount>>)  *)
(*   [t |-> "wasm", contract, msg, funds]   msg.op names the entry point   *)
(***************************************************************************)
EXTENDS PropsWorld

CONSTANTS KeyBytes(_),       \* registry-key bytes of an asset info (denom bytes / canonical address bytes)
          AddrOfIndex(_),    \* address given to the n-th instantiated contract
          LEGACY             \* defects of the original code to re-introduce (normally {}):
                             \*   "R1" cw20 swap hook does not tie the named asset to the sending token
                             \*   "R2" decimals re-registration reaches only the first LegacyPage pairs
                             \*   "R3" factory lookup answers by key alone (used by the registry models)
LegacyPage == 2

RFail(why)      == [ok |-> FALSE, why |-> why]
ROk(w, evs)     == [ok |-> TRUE, why |-> "", w |-> w, events |-> evs]
\* handler result: new world, messages to dispatch, the handler's own wasm event
HOk(w, msgs, e) == [ok |-> TRUE, why |-> "", w |-> w, msgs |-> msgs, ev |-> e]

Bank(dest, coins)            == [t |-> "bank", dest |-> dest, coins |-> coins]
Wasm(contract, msg, funds)   == [t |-> "wasm", contract |-> contract, msg |-> msg, funds |-> funds]

(***************************************************************************)
(* ledger updates                                                          *)
(***************************************************************************)
SetBal(w, info, a, v) ==
    IF info.native THEN [w EXCEPT !.bank[info.id][a] = v]
    ELSE [w EXCEPT !.tok[info.id].bal[a] = v]

\* move `amount` of `info` from a to b; a must hold it
Move(w, info, a, b, amount) ==
    IF a = b THEN w
    ELSE LET w1 == SetBal(w, info, a, NSub(Bal(w, info, a), amount))
         IN  SetBal(w1, info, b, NAdd(Bal(w1, info, b), amount))

NonZeroCoins(coins) == SelectSeq(coins, LAMBDA c : c[2] # N0)

RECURSIVE SendCoins(_, _, _, _, _)
SendCoins(w, from, to, coins, i) ==
    IF i > Len(coins) THEN ROk(w, <<>>)
    ELSE LET d == coins[i][1]  v == coins[i][2] IN
         IF d \notin Denoms(w) \/ from \notin DOMAIN w.bank[d] \/ to \notin DOMAIN w.bank[d]
            \/ NLt(Bal(w, Native(d), from), v)
         THEN RFail("err:Overflow sub")
         ELSE SendCoins(Move(w, Native(d), from, to, v), from, to, coins, i + 1)

\* cw-multi-test bank: zero coins are dropped; sending nothing is an error
BankSend(w, from, to, coins) ==
    LET nz == NonZeroCoins(coins) IN
    IF nz = <<>> THEN RFail("err:empty coins") ELSE SendCoins(w, from, to, nz, 1)

\* funds attached to a wasm execute: nothing to do when the list is empty
MoveFunds(w, from, to, funds) == IF funds = <<>> THEN ROk(w, <<>>) ELSE BankSend(w, from, to, funds)

(***************************************************************************)
(* cw20-base                                                               *)
(***************************************************************************)
SetAllow(w, t, o, s, v) ==
    LET rest == {x \in w.tok[t].allow : ~(x[1] = o /\ x[2] = s)} IN
    [w EXCEPT !.tok[t].allow = IF v = N0 THEN rest ELSE rest \cup {<<o, s, v>>}]

Cw20Handle(w, caller, t, m) ==
    LET tk == Token(t)
        e(act) == [action |-> act, contract |-> t]
        known(a) == a \in DOMAIN w.tok[t].bal
    IN
    CASE m.op = "transfer" ->
            IF m.amount = N0 THEN RFail("err:Invalid zero amount")
            ELSE IF ~known(caller) \/ ~known(m.dest) \/ NLt(Bal(w, tk, caller), m.amount) THEN RFail("err:Overflow sub")
            ELSE HOk(Move(w, tk, caller, m.dest, m.amount), <<>>, e("transfer"))
      [] m.op = "transfer_from" ->
            IF Allow(w, t, m.owner, caller) = N0 THEN RFail("err:No allowance")
            ELSE IF NLt(Allow(w, t, m.owner, caller), m.amount) THEN RFail("err:Overflow sub")
            ELSE IF ~known(m.owner) \/ ~known(m.dest) \/ NLt(Bal(w, tk, m.owner), m.amount) THEN RFail("err:Overflow sub")
            ELSE HOk(Move(SetAllow(w, t, m.owner, caller, NSub(Allow(w, t, m.owner, caller), m.amount)),
                          tk, m.owner, m.dest, m.amount), <<>>, e("transfer_from"))
      [] m.op = "send" ->
            IF m.amount = N0 THEN RFail("err:Invalid zero amount")
            ELSE IF ~known(caller) \/ ~known(m.contract) \/ NLt(Bal(w, tk, caller), m.amount) THEN RFail("err:Overflow sub")
            ELSE HOk(Move(w, tk, caller, m.contract, m.amount),
                     <<Wasm(m.contract, [op |-> "receive", sender |-> caller, amount |-> m.amount, hook |-> m.hook], <<>>)>>,
                     e("send"))
      [] m.op = "mint" ->
            IF m.amount = N0 THEN RFail("err:Invalid zero amount")
            ELSE IF w.tok[t].minter # caller THEN RFail("err:Unauthorized")
            ELSE IF ~Fits128(NAdd(w.tok[t].supply, m.amount)) THEN RFail("panic")
            ELSE IF ~known(m.dest) THEN RFail("err:other")
            ELSE HOk(SetBal([w EXCEPT !.tok[t].supply = NAdd(@, m.amount)], tk, m.dest, NAdd(Bal(w, tk, m.dest), m.amount)),
                     <<>>, e("mint"))
      [] m.op = "burn" ->
            IF m.amount = N0 THEN RFail("err:Invalid zero amount")
            ELSE IF ~known(caller) \/ NLt(Bal(w, tk, caller), m.amount) THEN RFail("err:Overflow sub")
            ELSE HOk(SetBal([w EXCEPT !.tok[t].supply = NSub(@, m.amount)], tk, caller, NSub(Bal(w, tk, caller), m.amount)),
                     <<>>, e("burn"))
      [] m.op = "increase_allowance" ->
            IF m.spender = caller THEN RFail("err:other")
            ELSE IF ~Fits128(NAdd(Allow(w, t, caller, m.spender), m.amount)) THEN RFail("panic")
            ELSE HOk(SetAllow(w, t, caller, m.spender, NAdd(Allow(w, t, caller, m.spender), m.amount)), <<>>, e("increase_allowance"))
      [] m.op = "decrease_allowance" ->
            IF m.spender = caller THEN RFail("err:other")
            ELSE IF Allow(w, t, caller, m.spender) = N0 THEN RFail("err:other")       \* no entry to load
            ELSE HOk(SetAllow(w, t, caller, m.spender, NMonus(Allow(w, t, caller, m.spender), m.amount)), <<>>, e("decrease_allowance"))
      [] OTHER -> RFail("err:other")

(***************************************************************************)
(* halo-pair                                                               *)
(***************************************************************************)
\* Asset::assert_sent_native_token_balance
SentOK(asset, funds) ==
    ~asset.info.native \/
        IF HasCoin(funds, asset.info.id)
        THEN funds[CHOOSE i \in DOMAIN funds : funds[i][1] = asset.info.id /\ \A j \in DOMAIN funds : funds[j][1] = asset.info.id => i <= j][2] = asset.amount
        ELSE asset.amount = N0

\* Asset::into_msg
PayMsg(info, amount, dest) ==
    IF info.native THEN Bank(dest, <<<<info.id, amount>>>>)
    ELSE Wasm(info.id, [op |-> "transfer", dest |-> dest, amount |-> amount], <<>>)

PoolsReadable(w, p) == KnownAsset(w, w.pair[p].a0) /\ KnownAsset(w, w.pair[p].a1)

\* swap(): info_sender is the caller of the pair (a user, or the cw20 token for a hook), sender is credited
PairSwapBody(w, p, funds, sender, offer, bp, ms, to) ==
    LET pr == w.pair[p] IN
    IF ~SentOK(offer, funds) THEN RFail("err:Native token balance mismatch")
    ELSE IF ~PoolsReadable(w, p) THEN RFail("err:other")
    ELSE IF offer.info # pr.a0 /\ offer.info # pr.a1 THEN RFail("err:Asset mismatch")
    ELSE LET oi == IF offer.info = pr.a0 THEN 0 ELSE 1
             cur == ResAt(w, p, oi)
         IN  IF NLt(cur, offer.amount) THEN RFail("err:Overflow sub")
             ELSE LET x == NSub(cur, offer.amount)
                      y == ResAt(w, p, 1 - oi)
                      cs == ComputeSwap(x, y, offer.amount, pr.commission)
                  IN  IF ~cs.ok THEN RFail("panic")
                      ELSE LET g == AssertMaxSpread(bp, ms, offer.amount, cs.v.ret, cs.v.spread, DecAt(w, p, oi), DecAt(w, p, 1 - oi)) IN
                           IF ~g.ok THEN RFail(IF g.why = "err:Max spread assertion" THEN g.why ELSE IF g.why = "err:Overflow mul" THEN "err:other" ELSE "panic")
                           ELSE LET recv == IF to.some THEN to.v ELSE sender
                                    ask == InfoAt(w, p, 1 - oi)
                                IN  HOk(w,
                                        IF cs.v.ret = N0 THEN <<>> ELSE <<PayMsg(ask, cs.v.ret, recv)>>,
                                        [action |-> "swap", contract |-> p, sender |-> sender, receiver |-> recv,
                                         offer_asset |-> offer.info.id, ask_asset |-> ask.id,
                                         offer_amount |-> offer.amount, return_amount |-> cs.v.ret,
                                         spread_amount |-> cs.v.spread, commission_amount |-> cs.v.comm])

PairWithdrawBody(w, p, sender, amount) ==
    IF ~PoolsReadable(w, p) THEN RFail("err:other")
    ELSE LET S == LpSupply(w, p)
             f0 == WithdrawRefund(Res0(w, p), amount, S)
             f1 == WithdrawRefund(Res1(w, p), amount, S)
         IN  IF ~f0.ok \/ ~f1.ok THEN RFail("panic")
             ELSE HOk(w,
                      <<PayMsg(w.pair[p].a0, f0.v, sender), PayMsg(w.pair[p].a1, f1.v, sender),
                        Wasm(w.pair[p].lp, [op |-> "burn", amount |-> amount], <<>>)>>,
                      [action |-> "withdraw_liquidity", contract |-> p, sender |-> sender, withdrawn_share |-> amount])

PairProvideBody(w, caller, p, funds, m) ==
    LET pr == w.pair[p]  as == m.assets IN
    IF ~SentOK(as[1], funds) \/ ~SentOK(as[2], funds) THEN RFail("err:Native token balance mismatch")
    ELSE IF ~PoolsReadable(w, p) THEN RFail("err:other")
    ELSE IF ~Declares(as, pr.a0) \/ ~Declares(as, pr.a1) THEN RFail("panic")        \* expect("Wrong asset info is given")
    ELSE LET d0 == DeclaredAmt(as, pr.a0)   d1 == DeclaredAmt(as, pr.a1)
             q0 == Res0(w, p)   q1 == Res1(w, p)                                    \* pools as queried (native deposit included)
             guard == Bind(U256Add(q0, d0), LAMBDA s0 : Bind(U256Add(q1, d1), LAMBDA s1 :
                      Bind(U256Mul(s0, s1), LAMBDA pp : DecFromUint(pp))))
         IN  IF ~guard.ok THEN RFail("panic")
             ELSE IF (pr.a0.native /\ NLt(q0, d0)) \/ (pr.a1.native /\ NLt(q1, d1)) THEN RFail("err:Overflow sub")
             ELSE LET r0 == IF pr.a0.native THEN NSub(q0, d0) ELSE q0
                      r1 == IF pr.a1.native THEN NSub(q1, d1) ELSE q1
                      sl == AssertSlippage(m.tol, d0, d1, r0, r1)
                  IN  IF ~sl.ok THEN RFail(IF sl.why \in {"err:Max slippage assertion", "err:slippage_tolerance cannot bigger than 1"} THEN sl.why ELSE "panic")
                      ELSE LET S == LpSupply(w, p)
                               sh == LpShare(S, d0, d1, r0, r1, caller \in pr.wl, pr.m0, pr.m1)
                           IN  IF ~sh.ok THEN RFail("panic")                          \* .unwrap()
                               ELSE IF sh.v = N0 THEN RFail("err:Invalid zero amount")
                               ELSE LET recv == IF m.receiver.some THEN m.receiver.v ELSE caller
                                        pulls == (IF pr.a0.native THEN <<>> ELSE
                                                    <<Wasm(pr.a0.id, [op |-> "transfer_from", owner |-> caller, dest |-> p, amount |-> d0], <<>>)>>)
                                                 \o (IF pr.a1.native THEN <<>> ELSE
                                                    <<Wasm(pr.a1.id, [op |-> "transfer_from", owner |-> caller, dest |-> p, amount |-> d1], <<>>)>>)
                                        share == IF S = N0 THEN NSub(sh.v, N1) ELSE sh.v
                                        mints == (IF S = N0 THEN <<Wasm(pr.lp, [op |-> "mint", dest |-> pr.lp, amount |-> N1], <<>>)>> ELSE <<>>)
                                                 \o <<Wasm(pr.lp, [op |-> "mint", dest |-> recv, amount |-> share], <<>>)>>
                                    IN  HOk(w, pulls \o mints,
                                            [action |-> "provide_liquidity", contract |-> p, sender |-> caller, receiver |-> recv, share |-> share])

PairHandle(w, caller, p, funds, m) ==
    LET pr == w.pair[p] IN
    CASE m.op = "provide" -> PairProvideBody(w, caller, p, funds, m)
      [] m.op = "swap" ->
            IF ~m.offer.info.native THEN RFail("err:Unauthorized")
            ELSE PairSwapBody(w, p, funds, caller, m.offer, m.bp, m.ms, m.to)
      [] m.op = "receive" ->
            IF m.hook.kind = "swap" THEN
                IF m.hook.offer.amount # m.amount THEN RFail("err:Asset mismatch")
                ELSE IF ~PoolsReadable(w, p) THEN RFail("err:other")
                ELSE IF ~((~pr.a0.native /\ pr.a0.id = caller) \/ (~pr.a1.native /\ pr.a1.id = caller)) THEN RFail("err:Unauthorized")
                ELSE IF "R1" \notin LEGACY /\ m.hook.offer.info # Token(caller) THEN RFail("err:Asset mismatch")
                ELSE PairSwapBody(w, p, funds, m.sender, m.hook.offer, m.hook.bp, m.hook.ms, m.hook.to)
            ELSE IF m.hook.kind = "withdraw" THEN
                IF caller # pr.lp THEN RFail("err:Unauthorized")
                ELSE PairWithdrawBody(w, p, m.sender, m.amount)
            ELSE RFail("err:other")
      [] m.op = "update_decimals" ->
            IF caller # w.fac.addr THEN RFail("err:Unauthorized")
            ELSE LET hit == (pr.a0.native /\ pr.a0.id = m.denom) \/ (pr.a1.native /\ pr.a1.id = m.denom) IN
                 HOk(IF hit THEN [w EXCEPT !.pair[p].d0 = m.decimals[1], !.pair[p].d1 = m.decimals[2]] ELSE w, <<>>,
                     [action |-> "update_native_token_decimals", contract |-> p])
      [] OTHER -> RFail("err:other")

(***************************************************************************)
(* halo-factory                                                            *)
(***************************************************************************)
RECURSIVE LexLe(_, _, _)
LexLe(a, b, i) ==      \* byte sequences, lexicographic, a <= b
    IF i > Len(a) THEN TRUE
    ELSE IF i > Len(b) THEN FALSE
    ELSE IF a[i] < b[i] THEN TRUE
    ELSE IF a[i] > b[i] THEN FALSE
    ELSE LexLe(a, b, i + 1)
BytesLe(a, b) == LexLe(a, b, 1)

\* state.rs:pair_key -- the two identifiers sorted by bytes, concatenated without a delimiter
PairKey(x, y) ==
    LET bx == KeyBytes(x)  by == KeyBytes(y) IN
    IF BytesLe(bx, by) THEN bx \o by ELSE by \o bx

KeyTaken(w, k) == \E i \in DOMAIN w.fac.reg : w.fac.reg[i].key = k

\* insert an entry keeping the registry in key order
InsertReg(reg, e) ==
    LET before == SelectSeq(reg, LAMBDA r : BytesLe(r.key, e.key))
        after  == SelectSeq(reg, LAMBDA r : ~BytesLe(r.key, e.key))
    IN  before \o <<e>> \o after

\* every balance map gets an entry for a newly instantiated contract
AddAccount(w, a) ==
    [w EXCEPT !.bank = [d \in DOMAIN w.bank |-> IF a \in DOMAIN w.bank[d] THEN w.bank[d] ELSE w.bank[d] @@ (a :> N0)],
              !.tok  = [t \in DOMAIN w.tok  |-> IF a \in DOMAIN w.tok[t].bal THEN w.tok[t]
                                                ELSE [w.tok[t] EXCEPT !.bal = @ @@ (a :> N0)]]]

DefaultCommission == NDiv(NMul(NOfInt(3), DFRAC), NOfInt(1000))      \* "0.003"

FacHandle(w, caller, m) ==
    LET fa == w.fac IN
    CASE m.op = "update_config" ->
            IF caller # fa.owner THEN RFail("err:Unauthorized")
            ELSE HOk([w EXCEPT !.fac.owner = IF m.new_owner.some THEN m.new_owner.v ELSE @,
                               !.fac.token_code = IF m.token_code_id.some THEN m.token_code_id.v ELSE @,
                               !.fac.pair_code = IF m.pair_code_id.some THEN m.pair_code_id.v ELSE @],
                     <<>>, [action |-> "update_config", contract |-> fa.addr])
      [] m.op = "create_pair" ->
            LET x == m.infos[1]  y == m.infos[2] IN
            IF caller # fa.owner THEN RFail("err:Unauthorized")
            ELSE IF x = y THEN RFail("err:same asset")
            ELSE IF m.commission.some /\ NGt(m.commission.v, DFRAC) THEN RFail("err:commission rate")
            ELSE IF ~Creatable(w, x) \/ ~Creatable(w, y) THEN RFail("err:asset invalid")
            ELSE IF KeyTaken(w, PairKey(x, y)) THEN RFail("err:Pair already exists")
            ELSE LET n == w.nextc
                     pa == AddrOfIndex(n)   lpa == AddrOfIndex(n + 1)
                     comm == IF m.commission.some THEN m.commission.v ELSE DefaultCommission
                     w1 == AddAccount(AddAccount(w, pa), lpa)
                     accts == Accts(w1)
                     w2 == [w1 EXCEPT !.tok = @ @@ (lpa :> [bal |-> [a \in accts |-> N0], supply |-> N0, decimals |-> 6,
                                                            minter |-> pa, allow |-> {}]),
                                      !.pair = @ @@ (pa :> [a0 |-> x, a1 |-> y, d0 |-> TrueDecimals(w, x), d1 |-> TrueDecimals(w, y),
                                                            lp |-> lpa, self_lp |-> lpa, commission |-> comm, wl |-> m.whitelist,
                                                            m0 |-> m.min0, m1 |-> m.min1]),
                                      !.nextc = n + 2]
                     entry == [key |-> PairKey(x, y), a0 |-> x, a1 |-> y, pair |-> pa, lp |-> lpa,
                               d0 |-> TrueDecimals(w, x), d1 |-> TrueDecimals(w, y), commission |-> comm,
                               wl |-> m.whitelist, m0 |-> m.min0, m1 |-> m.min1]
                 IN  HOk([w2 EXCEPT !.fac.reg = InsertReg(@, entry)], <<>>, [action |-> "create_pair", contract |-> fa.addr])
      [] m.op = "add_native" ->
            LET existed == m.denom \in DOMAIN fa.native IN
            IF caller # fa.owner THEN RFail("err:Unauthorized")
            ELSE IF Bal(w, Native(m.denom), fa.addr) = N0 THEN RFail("err:factory balance")
            ELSE LET nat2 == IF existed THEN [fa.native EXCEPT ![m.denom] = m.decimals] ELSE fa.native @@ (m.denom :> m.decimals)
                     hit0(e) == e.a0 = Native(m.denom)
                     hit1(e) == e.a1 = Native(m.denom)
                     reached(i) == "R2" \notin LEGACY \/ i <= LegacyPage
                     reg2 == IF existed
                             THEN [i \in DOMAIN fa.reg |->
                                     IF ~reached(i) THEN fa.reg[i]
                                     ELSE [fa.reg[i] EXCEPT !.d0 = IF hit0(fa.reg[i]) THEN m.decimals ELSE @,
                                                            !.d1 = IF hit1(fa.reg[i]) THEN m.decimals ELSE @]]
                             ELSE fa.reg
                     \* one update message per matching position, carrying the factory's own view of the other decimals
                     msgOf(e) == (IF hit0(e) THEN <<Wasm(e.pair, [op |-> "update_decimals", denom |-> m.denom,
                                                                  decimals |-> <<m.decimals, e.d1>>], <<>>)>> ELSE <<>>)
                                 \o (IF hit1(e) THEN <<Wasm(e.pair, [op |-> "update_decimals", denom |-> m.denom,
                                                                  decimals |-> <<e.d0, m.decimals>>], <<>>)>> ELSE <<>>)
                     RECURSIVE Msgs(_)
                     Msgs(i) == IF i > Len(fa.reg) \/ ~reached(i) THEN <<>> ELSE msgOf(fa.reg[i]) \o Msgs(i + 1)
                 IN  HOk([w EXCEPT !.fac.native = nat2, !.fac.reg = reg2],
                         IF existed THEN Msgs(1) ELSE <<>>,
                         [action |-> "add_allow_native_token", contract |-> fa.addr])
      [] m.op = "migrate_pair" ->
            IF caller # fa.owner THEN RFail("err:Unauthorized")
            ELSE IF m.contract \notin Pairs(w) THEN RFail("err:other")
            ELSE IF m.code_id.some /\ m.code_id.v # fa.pair_code THEN RFail("err:other")
            ELSE HOk(w, <<>>, [action |-> "", contract |-> fa.addr])
      [] OTHER -> RFail("err:other")

(***************************************************************************)
(* halo-router                                                             *)
(***************************************************************************)
RouterOpsBody(w, sender, d) ==        \* d: record with operations, min, to
    LET ops == d.operations  n == Len(ops) IN
    IF n = 0 THEN RFail("err:must provide operations")
    ELSE IF Cardinality(Dangling(ops)) # 1 THEN RFail("err:multiple output token")
    ELSE LET to == IF d.to.some THEN d.to.v ELSE sender
             target == ops[n].ask_info
             hops == [i \in 1..n |-> Wasm(w.router, [op |-> "op", operation |-> ops[i],
                                                     to |-> IF i = n THEN Some(to) ELSE NoneS], <<>>)]
         IN  IF d.min.some
             THEN IF ~KnownAsset(w, target) THEN RFail("err:other")
                  ELSE HOk(w, hops \o <<Wasm(w.router, [op |-> "assert_min", info |-> target, prev |-> Bal(w, target, to),
                                                         minimum |-> d.min.v, recv |-> to], <<>>)>>,
                           [action |-> "", contract |-> w.router])
             ELSE HOk(w, hops, [action |-> "", contract |-> w.router])

RouterHandle(w, caller, funds, m) ==
    CASE m.op = "ops" -> RouterOpsBody(w, caller, m)
      [] m.op = "receive" ->
            IF m.hook.kind # "router_ops" THEN RFail("err:other")
            ELSE RouterOpsBody(w, m.sender, m.hook)
      [] m.op = "op" ->
            LET o == m.operation IN
            IF caller # w.router THEN RFail("err:Unauthorized")
            ELSE IF ~RegHas(w, o.offer_info, o.ask_info) THEN RFail("err:other")
            ELSE IF ~KnownAsset(w, o.offer_info) THEN RFail("err:other")
            ELSE LET pa == RegEntry(w, o.offer_info, o.ask_info).pair
                     amount == Bal(w, o.offer_info, w.router)
                     offer == [info |-> o.offer_info, amount |-> amount]
                     to == m.to
                 IN  HOk(w,
                         IF o.offer_info.native
                         THEN <<Wasm(pa, [op |-> "swap", offer |-> offer, bp |-> None, ms |-> None, to |-> to],
                                     <<<<o.offer_info.id, amount>>>>)>>
                         ELSE <<Wasm(o.offer_info.id, [op |-> "send", contract |-> pa, amount |-> amount,
                                                       hook |-> [kind |-> "swap", offer |-> offer, bp |-> None, ms |-> None, to |-> to]], <<>>)>>,
                         [action |-> "", contract |-> w.router])
      [] m.op = "assert_min" ->
            IF caller # w.router THEN RFail("err:Unauthorized")
            ELSE IF ~KnownAsset(w, m.info) THEN RFail("err:other")
            ELSE LET b == Bal(w, m.info, m.recv) IN
                 IF NLt(b, m.prev) THEN RFail("err:Overflow sub")
                 ELSE IF NLt(NSub(b, m.prev), m.minimum) THEN RFail("err:minimum receive")
                 ELSE HOk(w, <<>>, [action |-> "", contract |-> w.router])
      [] OTHER -> RFail("err:other")

(***************************************************************************)
(* dispatch and depth-first execution                                      *)
(***************************************************************************)
Handle(w, caller, c, funds, m) ==
    IF c \in Tokens(w) THEN Cw20Handle(w, caller, c, m)
    ELSE IF c \in Pairs(w) THEN PairHandle(w, caller, c, funds, m)
    ELSE IF c = w.fac.addr THEN FacHandle(w, caller, m)
    ELSE IF c = w.router THEN RouterHandle(w, caller, funds, m)
    ELSE RFail("err:other")

RECURSIVE ExecMsg(_, _, _), RunMsgs(_, _, _, _)
ExecMsg(w, sender, m) ==
    IF m.t = "bank" THEN BankSend(w, sender, m.dest, m.coins)
    ELSE LET fr == MoveFunds(w, sender, m.contract, m.funds) IN
         IF ~fr.ok THEN fr
         ELSE LET h == Handle(fr.w, sender, m.contract, m.funds, m.msg) IN
              IF ~h.ok THEN RFail(h.why)
              ELSE LET r == RunMsgs(h.w, m.contract, h.msgs, 1) IN
                   IF ~r.ok THEN r ELSE ROk(r.w, <<h.ev>> \o r.events)

RunMsgs(w, sender, msgs, i) ==
    IF i > Len(msgs) THEN ROk(w, <<>>)
    ELSE LET r == ExecMsg(w, sender, msgs[i]) IN
         IF ~r.ok THEN r
         ELSE LET r2 == RunMsgs(r.w, sender, msgs, i + 1) IN
              IF ~r2.ok THEN r2 ELSE ROk(r2.w, r.events \o r2.events)

(***************************************************************************)
(* transactions: an operation record (the shape recorded in traces and     *)
(* produced by the model's actions) -> the message its caller sends        *)
(***************************************************************************)
HookOf(h) == h
TxMsg(w, op) ==
    CASE op.op = "bank_send"       -> Bank(op.dest, op.coins)
      [] op.op = "cw20_transfer"   -> Wasm(op.token, [op |-> "transfer", dest |-> op.dest, amount |-> op.amount], <<>>)
      [] op.op = "cw20_burn"       -> Wasm(op.token, [op |-> "burn", amount |-> op.amount], <<>>)
      [] op.op = "cw20_increase_allowance" -> Wasm(op.token, [op |-> "increase_allowance", spender |-> op.spender, amount |-> op.amount], <<>>)
      [] op.op = "cw20_decrease_allowance" -> Wasm(op.token, [op |-> "decrease_allowance", spender |-> op.spender, amount |-> op.amount], <<>>)
      [] op.op = "cw20_send"       -> Wasm(op.token, [op |-> "send", contract |-> op.contract, amount |-> op.amount, hook |-> op.hook], <<>>)
      [] op.op = "pair_provide"    -> Wasm(op.pair, [op |-> "provide", assets |-> op.assets, tol |-> op.tol, receiver |-> op.receiver], op.funds)
      [] op.op = "pair_swap"       -> Wasm(op.pair, [op |-> "swap", offer |-> op.offer, bp |-> op.bp, ms |-> op.ms, to |-> op.to], op.funds)
      [] op.op = "pair_receive"    -> Wasm(op.pair, [op |-> "receive", sender |-> op.sender, amount |-> op.amount, hook |-> op.hook], op.funds)
      [] op.op = "pair_update_decimals" -> Wasm(op.pair, [op |-> "update_decimals", denom |-> op.denom, decimals |-> op.decimals], <<>>)
      [] op.op = "fac_update_config" -> Wasm(w.fac.addr, [op |-> "update_config", new_owner |-> op.new_owner,
                                                          token_code_id |-> op.token_code_id, pair_code_id |-> op.pair_code_id], <<>>)
      [] op.op = "fac_create_pair" -> Wasm(w.fac.addr, [op |-> "create_pair", infos |-> op.infos, commission |-> op.commission,
                                                        whitelist |-> Range(op.whitelist), min0 |-> op.min0, min1 |-> op.min1], <<>>)
      [] op.op = "fac_add_native"  -> Wasm(w.fac.addr, [op |-> "add_native", denom |-> op.denom, decimals |-> op.decimals], <<>>)
      [] op.op = "fac_migrate_pair" -> Wasm(w.fac.addr, [op |-> "migrate_pair", contract |-> op.contract, code_id |-> op.code_id], <<>>)
      [] op.op = "router_ops"      -> Wasm(w.router, [op |-> "ops", operations |-> op.operations, min |-> op.min, to |-> op.to], op.funds)
      [] op.op = "router_op"       -> Wasm(w.router, [op |-> "op", operation |-> op.operation, to |-> op.to], op.funds)
      [] op.op = "router_assert_min" -> Wasm(w.router, [op |-> "assert_min", info |-> op.info, prev |-> op.prev,
                                                         minimum |-> op.minimum, recv |-> op.recv], <<>>)
      [] op.op = "router_receive"  -> Wasm(w.router, [op |-> "receive", sender |-> op.sender, amount |-> op.amount, hook |-> op.hook], <<>>)

\* one transaction: all-or-nothing
Tx(w, op) ==
    LET r == ExecMsg(w, op.caller, TxMsg(w, op)) IN
    IF r.ok THEN [w |-> r.w, res |-> [ok |-> TRUE, why |-> "", events |-> r.events]]
    ELSE [w |-> w, res |-> [ok |-> FALSE, why |-> r.why, events |-> <<>>]]

(***************************************************************************)
(* queries                                                                 *)
(***************************************************************************)
QSimulation(w, p, offer) ==
    IF p \notin Pairs(w) \/ ~PoolsReadable(w, p) THEN RFail("err:other")
    ELSE IF PosIn(w, p, offer.info) < 0 THEN RFail("err:Asset mismatch")
    ELSE LET i == PosIn(w, p, offer.info)
             cs == ComputeSwap(ResAt(w, p, i), ResAt(w, p, 1 - i), offer.amount, w.pair[p].commission)
         IN  IF cs.ok THEN [ok |-> TRUE, ret |-> cs.v.ret, spread |-> cs.v.spread, comm |-> cs.v.comm] ELSE RFail("panic")

QReverse(w, p, ask) ==
    IF p \notin Pairs(w) \/ ~PoolsReadable(w, p) THEN RFail("err:other")
    ELSE IF PosIn(w, p, ask.info) < 0 THEN RFail("err:Asset mismatch")
    ELSE LET i == PosIn(w, p, ask.info)
             co == ComputeOfferAmount(ResAt(w, p, 1 - i), ResAt(w, p, i), ask.amount, w.pair[p].commission)
         IN  IF co.ok THEN [ok |-> TRUE, offer |-> co.v.offer, spread |-> co.v.spread, comm |-> co.v.comm] ELSE RFail("panic")

RECURSIVE QRouteFrom(_, _, _, _)
QRouteFrom(w, ops, i, amount) ==
    IF i > Len(ops) THEN [ok |-> TRUE, amount |-> amount]
    ELSE IF ~RegHas(w, ops[i].offer_info, ops[i].ask_info) THEN RFail("err:other")
    ELSE LET s == QSimulation(w, RegEntry(w, ops[i].offer_info, ops[i].ask_info).pair, [info |-> ops[i].offer_info, amount |-> amount]) IN
         IF ~s.ok THEN s ELSE QRouteFrom(w, ops, i + 1, s.ret)
QRouterSim(w, ops, amount) == IF Len(ops) = 0 THEN RFail("err:must provide operations") ELSE QRouteFrom(w, ops, 1, amount)

RECURSIVE QRevRouteFrom(_, _, _, _)
QRevRouteFrom(w, ops, i, amount) ==
    IF i = 0 THEN [ok |-> TRUE, amount |-> amount]
    ELSE IF ~RegHas(w, ops[i].offer_info, ops[i].ask_info) THEN RFail("panic")
    ELSE LET s == QReverse(w, RegEntry(w, ops[i].offer_info, ops[i].ask_info).pair, [info |-> ops[i].ask_info, amount |-> amount]) IN
         IF ~s.ok THEN RFail("panic") ELSE QRevRouteFrom(w, ops, i - 1, s.offer)
QRouterRev(w, ops, amount) == IF Len(ops) = 0 THEN RFail("err:must provide operations") ELSE QRevRouteFrom(w, ops, Len(ops), amount)

\* factory Pairs query: entries strictly after the cursor key ++ <<1>>, at most min(limit, MaxL)
QPairs(w, start, limit, DefaultL, MaxL) ==
    LET lim == IF limit.some THEN (IF limit.v < MaxL THEN limit.v ELSE MaxL) ELSE DefaultL
        from == IF start.some THEN PairKey(start.v[1], start.v[2]) \o <<1>> ELSE <<>>
        rest == SelectSeq(w.fac.reg, LAMBDA e : ~start.some \/ (~BytesLe(e.key, from)))
    IN  SubSeq(rest, 1, IF Len(rest) < lim THEN Len(rest) ELSE lim)
=============================================================================

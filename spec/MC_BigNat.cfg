CONSTANT QUICK = TRUE
INIT Init
NEXT Next
INVARIANT Inv
CHECK_DEADLOCK FALSE

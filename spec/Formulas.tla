------------------------------- MODULE Formulas -------------------------------
(***************************************************************************)
(* The pricing and guard functions, transcribed line by line from          *)
(*   packages/haloswap/src/formulas.rs                                     *)
(*   contracts/halo-pair/src/assert.rs                                     *)
(*   contracts/halo-pair/src/contract.rs (withdraw ratio arithmetic)       *)
(* including the order of their intermediate truncations, so that the      *)
(* model has the rounding behaviour of the code and not of the idealised   *)
(* constant-product formula.                                               *)
(***************************************************************************)
EXTENDS Fixed

(***************************************************************************)
(* compute_swap(offer_pool x, ask_pool y, offer_amount a, commission c)    *)
(* result value: [ret, spread, comm, gross]                                *)
(***************************************************************************)
ComputeSwap(x, y, a, c) ==
    Bind(U256Mul(x, y), LAMBDA cp :
    Bind(DecFromUint(y), LAMBDA ydec :
    Bind(U256Add(x, a), LAMBDA xa :
    Bind(DecFromRatio(cp, xa), LAMBDA kdec :
    Bind(DecSub(ydec, kdec), LAMBDA gdec :
    Bind(UintMulDec(N1, gdec), LAMBDA gross :
    Bind(U256Mul(y, a), LAMBDA ya :
    Bind(DecFromRatio(ya, x), LAMBDA idec :
    Bind(UintMulDec(N1, idec), LAMBDA ideal :
    Bind(U256Sub(ideal, gross), LAMBDA spread :
    Bind(UintMulDec(gross, c), LAMBDA comm :
    Bind(U256Sub(gross, comm), LAMBDA ret :
    Bind(To128(ret), LAMBDA r1 :
    Bind(To128(spread), LAMBDA s1 :
    Bind(To128(comm), LAMBDA c1 :
        Ok([ret |-> r1, spread |-> s1, comm |-> c1, gross |-> gross]))))))))))))))))

(***************************************************************************)
(* compute_offer_amount(offer_pool x, ask_pool y, ask_amount b, c)         *)
(* result value: [offer, spread, comm]                                     *)
(***************************************************************************)
ComputeOfferAmount(x, y, b, c) ==
    Bind(U256Mul(x, y), LAMBDA cp :
    Bind(DecSub(DecOne, c), LAMBDA omc :
    Bind(DecDiv(DecOne, omc), LAMBDA inv :
    Bind(UintMulDec(b, inv), LAMBDA bc :                  \* ask / (1-c), before commission deduction
    Bind(U256Sub(y, bc), LAMBDA den :
    Bind(MultiplyRatio(N1, cp, den), LAMBDA q :
    Bind(U256Sub(q, x), LAMBDA offer :
    Bind(DecFromRatio(y, x), LAMBDA price :
    Bind(UintMulDec(offer, price), LAMBDA bs :            \* before spread deduction
    Bind(UintMulDec(bc, c), LAMBDA comm :
    Bind(To128(offer), LAMBDA o1 :
    Bind(To128(NMonus(bs, bc)), LAMBDA s1 :
    Bind(To128(comm), LAMBDA c1 :
        Ok([offer |-> o1, spread |-> s1, comm |-> c1]))))))))))))))

(***************************************************************************)
(* calculate_lp_token_amount_to_user                                       *)
(* S: LP supply, d: deposits, r: reserves (net of the native deposit),     *)
(* wl: sender whitelisted, m: configured minimums                          *)
(***************************************************************************)
LpShare(S, d0, d1, r0, r1, wl, m0, m1) ==
    IF S = N0 THEN
        IF ~wl THEN Fail("err:the sender is not in whitelist")
        ELSE IF NLt(d0, m0) \/ NLt(d1, m1) THEN Fail("err:the minimum deposit is not satisfied")
        ELSE Bind(U128RawMul(d0, d1), LAMBDA p : Ok(NSqrt(p)))
    ELSE
        Bind(U128MultiplyRatio(d0, S, r0), LAMBDA s0 :
        Bind(U128MultiplyRatio(d1, S, r1), LAMBDA s1 :
            Ok(NMin(s0, s1))))

(***************************************************************************)
(* withdraw_liquidity: refund of one asset for burning a out of S          *)
(***************************************************************************)
WithdrawRatio(a, S)     == Dec128FromRatio(a, S)
WithdrawRefund(r, a, S) == Bind(WithdrawRatio(a, S), LAMBDA ratio : U128MulDec(r, ratio))

(***************************************************************************)
(* assert_max_spread                                                       *)
(* bp, ms: [some: BOOLEAN, v: atomics]; od, rd: small Ints (decimals)      *)
(* Ok(N0) = accepted.                                                      *)
(***************************************************************************)
None     == [some |-> FALSE, v |-> N0]
Some(v)  == [some |-> TRUE,  v |-> v]

RECURSIVE NPow10(_)
NPow10(k) == IF k = 0 THEN N1 ELSE NMul(NOfInt(10), NPow10(k - 1))

\* the three amounts scaled to the larger of the two decimals: <<offer, ret, spread>>
NormaliseDecimals(offer, ret, spread, od, rd) ==
    IF od > rd THEN
        LET f == NPow10(od - rd) IN
        Bind(U128CheckedMul(ret, f), LAMBDA rn :
        Bind(U128CheckedMul(spread, f), LAMBDA sn :
            Ok(<<offer, rn, sn>>)))
    ELSE IF od < rd THEN
        LET f == NPow10(rd - od) IN
        Bind(U128CheckedMul(offer, f), LAMBDA on :
            Ok(<<on, ret, spread>>))
    ELSE Ok(<<offer, ret, spread>>)

AssertMaxSpread(bp, ms, offer, ret, spread, od, rd) ==
    Bind(NormaliseDecimals(offer, ret, spread, od, rd), LAMBDA t :
        LET on == t[1]  rn == t[2]  sn == t[3] IN
        IF ms.some /\ bp.some THEN
            Bind(UintDivDec(on, bp.v), LAMBDA expected :
                IF NLt(rn, expected)
                THEN Bind(DecFromRatio(NSub(expected, rn), expected), LAMBDA ratio :
                         IF NGt(ratio, ms.v) THEN Fail("err:Max spread assertion") ELSE Ok(N0))
                ELSE Ok(N0))
        ELSE IF ms.some THEN
            Bind(U256Add(rn, sn), LAMBDA tot :
            Bind(DecFromRatio(sn, tot), LAMBDA ratio :
                IF NGt(ratio, ms.v) THEN Fail("err:Max spread assertion") ELSE Ok(N0)))
        ELSE Ok(N0))

(***************************************************************************)
(* assert_slippage_tolerance(t, deposits, pools)                           *)
(***************************************************************************)
PriceDrop(d0, d1, omt) == Bind(DecFromRatio(d0, d1), LAMBDA q : DecMul(q, omt))

AssertSlippage(t, d0, d1, r0, r1) ==
    IF ~t.some THEN Ok(N0)
    ELSE IF NGt(t.v, DecOne) THEN Fail("err:slippage_tolerance cannot bigger than 1")
    ELSE LET omt == NSub(DecOne, t.v) IN
         Bind(PriceDrop(d0, d1, omt), LAMBDA a0 :
         Bind(DecFromRatio(r0, r1), LAMBDA b0 :
            IF NGt(a0, b0) THEN Fail("err:Max slippage assertion")
            ELSE Bind(PriceDrop(d1, d0, omt), LAMBDA a1 :
                 Bind(DecFromRatio(r1, r0), LAMBDA b1 :
                    IF NGt(a1, b1) THEN Fail("err:Max slippage assertion") ELSE Ok(N0)))))
=============================================================================

--------------------------------- MODULE Num ---------------------------------
(***************************************************************************)
(* The number domain every arithmetic-bearing module is written over.      *)
(*                                                                         *)
(* The same specification text is evaluated over two domains, selected in  *)
(* the TLC configuration file by operator replacement (NAdd <- IAdd ...):  *)
(*   - NumInt : TLA+ Int, with the fixed-point scale and the integer       *)
(*              widths scaled down (DFRAC = 10 or 100, "128 bit" = 2^8-1,  *)
(*              "256 bit" = 2^16-1) so that exhaustive model checking      *)
(*              reaches every rounding window and every abort path;        *)
(*   - NumBig : BigNat limb sequences with the production constants        *)
(*              (DFRAC = 10^18, 2^128-1, 2^256-1) for everything that is   *)
(*              evaluated on traces recorded from the real contracts.      *)
(* Values of either domain are canonical, so TLA+ equality is numeric      *)
(* equality.  NSub(a,b) is only used when NLe(b,a); NDiv/NMod only with a  *)
(* non-zero divisor.                                                       *)
(***************************************************************************)
EXTENDS Integers

CONSTANTS N0, N1,
          NAdd(_, _), NSub(_, _), NMul(_, _), NDiv(_, _), NMod(_, _),
          NLe(_, _), NOfInt(_), NSqrt(_),
          DFRAC,            \* fixed-point scale of Decimal256 and cosmwasm Decimal (10^18 in the code)
          U128MAX,          \* largest Uint128 / u128
          U256MAX           \* largest U256

NLt(a, b)  == NLe(a, b) /\ a # b
NGe(a, b)  == NLe(b, a)
NGt(a, b)  == NLe(b, a) /\ a # b
NMin(a, b) == IF NLe(a, b) THEN a ELSE b
NMax(a, b) == IF NLe(a, b) THEN b ELSE a
NMonus(a, b) == IF NLe(b, a) THEN NSub(a, b) ELSE N0
N2 == NAdd(N1, N1)
NSq(a) == NMul(a, a)
=============================================================================

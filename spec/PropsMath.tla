------------------------------ MODULE PropsMath ------------------------------
(***************************************************************************)
(* Function-level clauses of the listed properties, as predicates over     *)
(* (inputs, observed result).  The same text is evaluated                  *)
(*   - by MC_Math on the results of the specification's own formulas over  *)
(*     every input of a scaled-down domain (the reference refines the      *)
(*     properties, or TLC prints the counterexample), and                  *)
(*   - by Trace_Math on results recorded from the real functions at        *)
(*     production scale (the code satisfies the properties).               *)
(* All comparisons are exact cross-multiplications; nothing divides.       *)
(*                                                                         *)
(* An observed swap result is [ok, ret, spread, comm]; amounts are Num     *)
(* values, rates and tolerances are atomics (value * DFRAC).               *)
(***************************************************************************)
EXTENDS Formulas

M3(a, b, c)    == NMul(NMul(a, b), c)
M4(a, b, c, d) == NMul(NMul(a, b), NMul(c, d))

(***************************************************************************)
(* C01  a swap never lowers the reserve product nor empties a reserve      *)
(*      (x+a)(y-n) >= x*y  <=>  n*(x+a) <= y*a ;  y - n > 0                *)
(***************************************************************************)
C01_Swap(x, y, a, r) ==
    r.ok => /\ NLe(NMul(r.ret, NAdd(x, a)), NMul(y, a))
            /\ (y # N0 => NLt(r.ret, y))

\* KF-1: the input class in which compute_swap's 18-digit truncation of cp/(x+a)
\* loses a non-zero remainder the outer floor cannot see:
\*      0 < ((x*y) mod (x+a)) * DFRAC < x + a
KF1Window(x, y, a) ==
    /\ NAdd(x, a) # N0
    /\ LET m == NMod(NMul(x, y), NAdd(x, a)) IN
       /\ m # N0
       /\ NLt(NMul(m, DFRAC), NAdd(x, a))

(***************************************************************************)
(* C06  output = constant-product price less commission, within one unit   *)
(***************************************************************************)
\* g(1-c) - 1 < n < g(1-c) + 1,  g = y*a/(x+a), multiplied by (x+a)*DFRAC
C06_Price(x, y, a, c, r) ==
    r.ok /\ NLe(c, DFRAC) =>
        LET xa   == NAdd(x, a)
            net  == M3(y, a, NSub(DFRAC, c))                \* y*a*(D-cA)
        IN  /\ NGt(M3(NAdd(r.ret, N1), xa, DFRAC), net)
            /\ NLt(M3(r.ret, xa, DFRAC), NAdd(net, NMul(xa, DFRAC)))

\* commission = floor(c * (n + commission))
C06_Commission(c, r) ==
    r.ok => LET t == NMul(c, NAdd(r.ret, r.comm)) IN
            /\ NLe(NMul(r.comm, DFRAC), t)
            /\ NLt(t, NMul(NAdd(r.comm, N1), DFRAC))

\* n + commission + spread = floor(a*y/x)
C06_Spread(x, y, a, r) ==
    r.ok => LET tot == NAdd(NAdd(r.ret, r.comm), r.spread) IN
            /\ NLe(NMul(tot, x), NMul(a, y))
            /\ NLt(NMul(a, y), NMul(NAdd(tot, N1), x))

\* the output never decreases when the offer grows (a1 <= a2)
C06_Monotone(a1, r1, a2, r2) ==
    r1.ok /\ r2.ok /\ NLe(a1, a2) => NLe(r1.ret, r2.ret)

(***************************************************************************)
(* C04  withdrawal pays pro rata: r*a/S - r/D - 1 < x <= r*a/S             *)
(*      observed refund: [ok, v]                                           *)
(***************************************************************************)
C04_Refund(r, a, S, res) ==
    res.ok /\ NLe(N1, a) /\ NLe(a, S) =>
        /\ NLe(NMul(res.v, S), NMul(r, a))
        /\ NGt(NAdd(M3(NAdd(res.v, N1), S, DFRAC), NMul(r, S)), M3(r, a, DFRAC))

(***************************************************************************)
(* C05  provision mints a fair share                                       *)
(*      observed share: [ok, v]                                            *)
(***************************************************************************)
\* positive supply: min_i(d_i*S/r_i) - 1 < m <= min_i(d_i*S/r_i)
C05_Share(S, d0, d1, r0, r1, res) ==
    res.ok /\ S # N0 =>
        /\ NLe(NMul(res.v, r0), NMul(d0, S))
        /\ NLe(NMul(res.v, r1), NMul(d1, S))
        /\ \/ NGt(NMul(NAdd(res.v, N1), r0), NMul(d0, S))
           \/ NGt(NMul(NAdd(res.v, N1), r1), NMul(d1, S))

\* empty pair: only a whitelisted caller meeting both minimums; supply floor(sqrt(d0*d1))
C05_First(d0, d1, wl, m0, m1, res) ==
    res.ok => /\ wl
              /\ NLe(m0, d0) /\ NLe(m1, d1)
              /\ NLe(NSq(res.v), NMul(d0, d1))
              /\ NLt(NMul(d0, d1), NSq(NAdd(res.v, N1)))

(***************************************************************************)
(* C10  a swap that succeeds honours max_spread and belief_price           *)
(*      res: result of the guard ([ok, why]); on, rn, sn are the amounts   *)
(*      normalised to the larger of the two decimals                       *)
(***************************************************************************)
IsSpreadReject(res) == ~res.ok /\ res.why = "err:Max spread assertion"

C10_Belief(on, rn, p, s, res) ==
    /\ (res.ok /\ NGt(NMul(on, DFRAC), p) /\ NLt(s, DFRAC)) =>
           NGt(M3(rn, p, DFRAC), NMul(NSub(NMul(on, DFRAC), p), NSub(NSub(DFRAC, s), N1)))
    /\ IsSpreadReject(res) =>
           (NLe(s, DFRAC) /\ NLt(NMul(rn, p), NMul(on, NSub(DFRAC, s))))

C10_SpreadOnly(rn, sn, s, res) ==
    /\ res.ok => NLt(NMul(sn, DFRAC), NMul(NAdd(s, N1), NAdd(rn, sn)))
    /\ IsSpreadReject(res) => NGt(NMul(sn, DFRAC), NMul(s, NAdd(rn, sn)))

\* full guard, raw amounts and decimals; not evaluable when normalisation overflows
C10_Guard(bp, ms, offer, ret, spread, od, rd, res) ==
    LET nz == NormaliseDecimals(offer, ret, spread, od, rd) IN
    nz.ok =>
        LET on == nz.v[1]  rn == nz.v[2]  sn == nz.v[3] IN
        IF bp.some /\ ms.some THEN C10_Belief(on, rn, bp.v, ms.v, res)
        ELSE IF ms.some THEN C10_SpreadOnly(rn, sn, ms.v, res)
        ELSE ~IsSpreadReject(res)

(***************************************************************************)
(* C12  reverse simulation vs the closed form x*y/(y - ask/(1-c)) - x      *)
(*      res: [ok, offer]                                                   *)
(***************************************************************************)
C12_Reverse(x, y, b, c, res) ==
    LET yd  == NMonus(DFRAC, c)
        lhs == NMul(y, yd)   rhs == NMul(b, DFRAC)
    IN  \* judged where the closed form is defined and positive: y(1-c) > ask
        res.ok /\ NLt(c, DFRAC) /\ NGt(lhs, rhs) =>
            LET yn == NSub(lhs, rhs)  ox == NAdd(res.offer, x) IN
            \* never above the closed form
            /\ NLe(NMul(ox, yn), M3(x, y, yd))
            \* below it by at most one unit through each of its three truncating steps
            /\ NGt(NMul(NAdd(ox, N1), NAdd(NMul(yn, DFRAC), NMul(NAdd(b, DFRAC), yd))),
                   M4(x, y, yd, DFRAC))

(***************************************************************************)
(* C15  provision succeeds only within the caller's slippage tolerance     *)
(*      res: result of the guard ([ok, why])                               *)
(***************************************************************************)
IsSlippageReject(res) == ~res.ok /\ res.why = "err:Max slippage assertion"

SlipWithin(d0, d1, r0, r1, omt) ==      \* (d0/d1)(1-t) < r0/r1 + 2/D
    NLt(M3(d0, omt, r1), NAdd(M3(r0, d1, DFRAC), NMul(N2, NMul(d1, r1))))
SlipClear(d0, d1, r0, r1, omt) ==       \* (d0/d1)(1-t) <= r0/r1 - 1/D
    NLe(NAdd(M3(d0, omt, r1), NMul(d1, r1)), M3(r0, d1, DFRAC))

C15_Guard(t, d0, d1, r0, r1, res) ==
    t.some =>
        /\ NGt(t.v, DFRAC) => ~res.ok
        /\ (res.ok /\ NLe(t.v, DFRAC)) =>
               LET omt == NSub(DFRAC, t.v) IN
               SlipWithin(d0, d1, r0, r1, omt) /\ SlipWithin(d1, d0, r1, r0, omt)
        /\ (IsSlippageReject(res) /\ NLe(t.v, DFRAC)) =>
               LET omt == NSub(DFRAC, t.v) IN
               ~(SlipClear(d0, d1, r0, r1, omt) /\ SlipClear(d1, d0, r1, r0, omt))
=============================================================================

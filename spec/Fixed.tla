-------------------------------- MODULE Fixed --------------------------------
(***************************************************************************)
(* The numeric library of the contracts as partial functions.              *)
(*                                                                         *)
(*   packages/bignumber/src/math.rs   Uint256 / Decimal256 over the        *)
(*       checked 256-bit integer bigint::U256 (+,-,* panic on overflow,    *)
(*       / panics on zero)                                                 *)
(*   cosmwasm_std 1.1.8               Uint128, Decimal helpers the         *)
(*       contracts call (multiply_ratio, Decimal::from_ratio, * Decimal,   *)
(*       checked_sub, checked_mul)                                         *)
(*                                                                         *)
(* A result is Ok(v) or Fail(why).  `why` distinguishes a Rust panic       *)
(* ("panic:...") from a returned error ("err:..."); both abort the         *)
(* enclosing transaction.                                                  *)
(***************************************************************************)
EXTENDS Num

Ok(v)     == [ok |-> TRUE,  v |-> v,  why |-> ""]
Fail(why) == [ok |-> FALSE, v |-> N0, why |-> why]

\* monadic bind: continue with F(value) when r is Ok
Bind(r, F(_)) == IF r.ok THEN F(r.v) ELSE r

Fits256(v) == NLe(v, U256MAX)
Fits128(v) == NLe(v, U128MAX)

(***************************************************************************)
(* bigint::U256 (checked)                                                  *)
(***************************************************************************)
RawAdd(a, b) == LET s == NAdd(a, b) IN IF Fits256(s) THEN Ok(s) ELSE Fail("panic:u256 add overflow")
RawSub(a, b) == IF NLe(b, a) THEN Ok(NSub(a, b)) ELSE Fail("panic:u256 sub underflow")
RawMul(a, b) == LET p == NMul(a, b) IN IF Fits256(p) THEN Ok(p) ELSE Fail("panic:u256 mul overflow")
RawDiv(a, b) == IF b = N0 THEN Fail("panic:u256 div by zero") ELSE Ok(NDiv(a, b))

(***************************************************************************)
(* bignumber::Uint256                                                      *)
(***************************************************************************)
U256Add(a, b) == RawAdd(a, b)
U256Sub(a, b) == RawSub(a, b)                     \* assert!(self.0 >= rhs.0)
U256Mul(a, b) == IF a = N0 \/ b = N0 THEN Ok(N0) ELSE RawMul(a, b)

\* Uint256::multiply_ratio(self, nom, denom) = self * nom / denom
MultiplyRatio(a, n, d) ==
    IF d = N0 THEN Fail("panic:Denominator must not be zero")
    ELSE Bind(RawMul(a, n), LAMBDA p : Ok(NDiv(p, d)))

(***************************************************************************)
(* bignumber::Decimal256 (atomics: value * DFRAC)                          *)
(***************************************************************************)
DecOne == DFRAC
DecAdd(a, b) == RawAdd(a, b)
DecSub(a, b) == RawSub(a, b)
DecMul(a, b) == Bind(RawMul(a, b), LAMBDA p : Ok(NDiv(p, DFRAC)))
DecDiv(a, b) == IF b = N0 THEN Fail("panic:decimal div by zero")
                ELSE Bind(RawMul(a, DFRAC), LAMBDA p : Ok(NDiv(p, b)))
DecFromRatio(n, d) ==
    IF d = N0 THEN Fail("panic:Denominator must not be zero")
    ELSE Bind(RawMul(n, DFRAC), LAMBDA p : Ok(NDiv(p, d)))
DecFromUint(v) == RawMul(v, DFRAC)

\* Uint256 * Decimal256 and Decimal256 * Uint256 (both give Uint256)
UintMulDec(u, d) == IF u = N0 \/ d = N0 THEN Ok(N0) ELSE MultiplyRatio(u, d, DFRAC)
\* Uint256 / Decimal256
UintDivDec(u, d) == IF d = N0 THEN Fail("panic:uint div by zero decimal")
                    ELSE IF u = N0 THEN Ok(N0) ELSE MultiplyRatio(u, DFRAC, d)

\* From<Uint256> for u128 / Uint128
To128(v) == IF Fits128(v) THEN Ok(v) ELSE Fail("panic:u256 does not fit u128")

(***************************************************************************)
(* cosmwasm_std::Uint128 / Decimal                                         *)
(***************************************************************************)
U128CheckedSub(a, b) == IF NLe(b, a) THEN Ok(NSub(a, b)) ELSE Fail("err:Overflow sub")
U128CheckedMul(a, b) == LET p == NMul(a, b) IN IF Fits128(p) THEN Ok(p) ELSE Fail("err:Overflow mul")
\* plain u128 `*` with overflow checks on
U128RawMul(a, b)     == LET p == NMul(a, b) IN IF Fits128(p) THEN Ok(p) ELSE Fail("panic:u128 mul overflow")

\* Uint128::multiply_ratio: 256-bit intermediate, panics on zero denominator / overflowing quotient
U128MultiplyRatio(a, n, d) ==
    IF d = N0 THEN Fail("panic:Denominator must not be zero")
    ELSE LET q == NDiv(NMul(a, n), d) IN
         IF Fits128(q) THEN Ok(q) ELSE Fail("panic:Multiplication overflow")

\* Decimal::from_ratio (128-bit atomics)
Dec128FromRatio(n, d) ==
    IF d = N0 THEN Fail("panic:Denominator must not be zero")
    ELSE LET q == NDiv(NMul(n, DFRAC), d) IN
         IF Fits128(q) THEN Ok(q) ELSE Fail("panic:Multiplication overflow")

\* Uint128 * Decimal
U128MulDec(u, d) == IF u = N0 \/ d = N0 THEN Ok(N0) ELSE U128MultiplyRatio(u, d, DFRAC)

\* From<Decimal> for Decimal256 goes through the decimal numeral: same atomics
DecFromDec128(d) == d
=============================================================================

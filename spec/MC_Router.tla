------------------------------ MODULE MC_Router ------------------------------
(***************************************************************************)
(* Small-scope exhaustive model of the router over a world with three      *)
(* funded pairs of mixed kinds                                             *)
(*      p1 = (ua, tA)  native/cw20      p2 = (tA, tB)  cw20/cw20           *)
(*      p3 = (ub, tB)  native/cw20      (ROUTES4: p4 = (ua, ub) native/native) *)
(* Every route of 1..MAXHOPS hops that can be chained through them (and a  *)
(* few ill-shaped ones), entered with native funds or through a cw20 send, *)
(* with minimum_receive taken around the quote of the current state        *)
(* (quote-1, quote, quote+1, none), any recipient, interleaved with other  *)
(* traders' direct swaps and with direct calls of the router's internal    *)
(* entry points by outsiders.                                              *)
(* Checked on every transition: C01, C03, C06 per pair, C07, C11, C13      *)
(* (pass-through, shape, delivered = quoted), C14.                         *)
(***************************************************************************)
EXTENDS Machine, NumInt

CONSTANTS AMTS, MAXSTEPS, MAXHOPS, COMMISSION, FOURPAIRS

Users == {"lp1", "trader", "other", "attacker"}
FAC == "fac"
RTR == "rtr"
UA == Native("ua")   UB == Native("ub")   TA == Token("tA")   TB == Token("tB")
PairDefs ==
    <<[addr |-> "p1", lp |-> "l1", a0 |-> UA, a1 |-> TA],
      [addr |-> "p2", lp |-> "l2", a0 |-> TA, a1 |-> TB],
      [addr |-> "p3", lp |-> "l3", a0 |-> TB, a1 |-> UB]>>
    \o (IF FOURPAIRS THEN <<[addr |-> "p4", lp |-> "l4", a0 |-> UA, a1 |-> UB]>> ELSE <<>>)
PairAddrs == {PairDefs[i].addr : i \in DOMAIN PairDefs}
LpAddrs == {PairDefs[i].lp : i \in DOMAIN PairDefs}
AllAccts == Users \cup {FAC, RTR, "tA", "tB"} \cup PairAddrs \cup LpAddrs

MCKeyBytes(x) == LET id == x.id IN CASE id = "ua" -> <<2>> [] id = "ub" -> <<3>> [] id = "tA" -> <<4>> [] id = "tB" -> <<5>> [] OTHER -> <<9>>
MCAddrOfIndex(n) == "new"

Reserve(p, asset) == IF asset \in {p.a0, p.a1} THEN (IF asset = p.a0 THEN 8 ELSE 6) ELSE 0
StartBal(a, asset) ==
    IF a \in PairAddrs THEN Reserve(PairDefs[CHOOSE i \in DOMAIN PairDefs : PairDefs[i].addr = a], asset)
    ELSE IF a \in {"trader", "other", "attacker"} THEN 3
    ELSE 0

InitWorld0 ==
    [ bank |-> [d \in {"ua", "ub"} |-> [a \in AllAccts |-> StartBal(a, Native(d))]],
      tok  |-> [t \in {"tA", "tB"} \cup LpAddrs |->
                  IF t \in LpAddrs
                  THEN [bal |-> [a \in AllAccts |-> IF a = "lp1" THEN 5 ELSE IF a = t THEN 1 ELSE 0], supply |-> 6, decimals |-> 6,
                        minter |-> PairDefs[CHOOSE i \in DOMAIN PairDefs : PairDefs[i].lp = t].addr, allow |-> {}]
                  ELSE [bal |-> [a \in AllAccts |-> StartBal(a, Token(t))], supply |-> 40, decimals |-> 1, minter |-> "", allow |-> {}]],
      pair |-> [a \in PairAddrs |->
                  LET p == PairDefs[CHOOSE i \in DOMAIN PairDefs : PairDefs[i].addr = a] IN
                  [a0 |-> p.a0, a1 |-> p.a1, d0 |-> 1, d1 |-> 1, lp |-> p.lp, self_lp |-> p.lp, commission |-> COMMISSION, wl |-> {"lp1"}, m0 |-> 0, m1 |-> 0]],
      fac  |-> [addr |-> FAC, owner |-> "own", pair_code |-> 2, token_code |-> 4, native |-> ("ua" :> 1 @@ "ub" :> 1),
                reg |-> [i \in DOMAIN PairDefs |->
                           [key |-> <<i>>, a0 |-> PairDefs[i].a0, a1 |-> PairDefs[i].a1, pair |-> PairDefs[i].addr, lp |-> PairDefs[i].lp,
                            d0 |-> 1, d1 |-> 1, commission |-> COMMISSION, wl |-> {"lp1"}, m0 |-> 0, m1 |-> 0]]],
      router |-> RTR,
      nextc |-> 20,
      light |-> FALSE ]

\* token supplies are the sums of the balances just laid out
InitWorld == [InitWorld0 EXCEPT !.tok = [t \in DOMAIN InitWorld0.tok |->
                 IF t \in LpAddrs THEN InitWorld0.tok[t] ELSE [InitWorld0.tok[t] EXCEPT !.supply = Total(InitWorld0, Token(t))]]]

VARIABLES w, last, steps
vars == <<w, last, steps>>
View == <<w, steps>>
NoEv == [op |-> [op |-> "none", caller |-> "none"], res |-> [ok |-> FALSE, why |-> "", events |-> <<>>]]

Assets == {UA, UB, TA, TB}
Hop(x, y) == [offer_info |-> x, ask_info |-> y]
Linked(x, y) == \E i \in DOMAIN PairDefs : {PairDefs[i].a0, PairDefs[i].a1} = {x, y}

\* all chains of 1..MAXHOPS hops through existing pairs
Routes1 == {<<Hop(x, y)>> : x \in Assets, y \in {z \in Assets : TRUE}} \cap {<<Hop(x, y)>> : x \in Assets, y \in Assets}
Chain1 == {<<Hop(x, y)>> : x \in Assets, y \in Assets}
RECURSIVE Chains(_)
Chains(n) ==
    IF n = 1 THEN {r \in Chain1 : Linked(r[1].offer_info, r[1].ask_info)}
    ELSE LET prev == Chains(n - 1) IN
         prev \cup {Append(r, Hop(r[Len(r)].ask_info, y)) : r \in {q \in prev : Len(q) = n - 1}, y \in Assets}
GoodRoutes == {r \in Chains(MAXHOPS) : \A i \in DOMAIN r : Linked(r[i].offer_info, r[i].ask_info)}
\* empty, two outputs, no such pair, identical assets, and hops that do not chain: two pairs merging into one
\* output, a chain given in the wrong order
BadRoutes == {<<>>, <<Hop(UA, TA), Hop(UB, TB)>>, <<Hop(UA, UB)>>, <<Hop(UA, UA)>>,
              <<Hop(UA, TA), Hop(TB, TA)>>, <<Hop(TA, TB), Hop(UA, TA)>>}

Quote(ops, a) == LET q == QRouterSim(w, ops, a) IN IF q.ok THEN q.amount ELSE 0
Mins(ops, a) == LET q == Quote(ops, a) IN {None, Some(q), Some(q + 1)} \cup (IF q > 0 THEN {Some(q - 1)} ELSE {})

RouteOpsFor(c, r, a, m, t) ==
    IF r # <<>> /\ ~r[1].offer_info.native
    THEN [op |-> "cw20_send", token |-> r[1].offer_info.id, caller |-> c, contract |-> RTR, amount |-> a,
          hook |-> [kind |-> "router_ops", operations |-> r, min |-> m, to |-> t]]
    ELSE [op |-> "router_ops", caller |-> c, operations |-> r, min |-> m, to |-> t,
          funds |-> IF r = <<>> THEN <<<<"ua", a>>>> ELSE <<<<r[1].offer_info.id, a>>>>]

RouteOpsSet ==
    UNION { UNION {
      {RouteOpsFor(c, r, a, m, t) : c \in {"trader", "attacker"}, m \in Mins(r, a),
                                     t \in {NoneS, Some("other")} \cup (IF FOURPAIRS THEN {Some(RTR)} ELSE {})} :
        a \in AMTS } : r \in GoodRoutes \cup BadRoutes }

\* two independent chains (two dangling outputs) with BOTH chain heads funded: must still be rejected
TwoHeadOps ==
    {[op |-> "router_ops", caller |-> "trader", operations |-> <<Hop(UA, TA), Hop(UB, TB)>>, min |-> m, to |-> NoneS,
      funds |-> <<<<"ua", 1>>, <<"ub", 1>>>>] : m \in {None, Some(0)}}

DirectSwaps ==
    UNION {
      {IF x.native
       THEN [op |-> "pair_swap", pair |-> PairDefs[i].addr, caller |-> "other", offer |-> [info |-> x, amount |-> a],
             bp |-> None, ms |-> None, to |-> NoneS, funds |-> <<<<x.id, a>>>>]
       ELSE [op |-> "cw20_send", token |-> x.id, caller |-> "other", contract |-> PairDefs[i].addr, amount |-> a,
             hook |-> [kind |-> "swap", offer |-> [info |-> x, amount |-> a], bp |-> None, ms |-> None, to |-> NoneS]] :
          x \in {PairDefs[i].a0, PairDefs[i].a1}, a \in {1, 2}} :
      i \in DOMAIN PairDefs }

\* outsiders (and other contracts of the system) calling the router's internal entry points, donations to the router
InternalCalls ==
    {[op |-> "router_op", caller |-> c, operation |-> Hop(UA, TA), to |-> Some("attacker"), funds |-> <<>>] : c \in {"attacker", FAC, "p1", "tA"}}
    \cup {[op |-> "router_assert_min", caller |-> c, info |-> UA, prev |-> 0, minimum |-> 0, recv |-> "attacker"] : c \in {"attacker", FAC, "p1"}}
    \cup {[op |-> "bank_send", caller |-> "attacker", dest |-> RTR, coins |-> <<<<"ua", 1>>>>]}

Ops == RouteOpsSet \cup TwoHeadOps \cup DirectSwaps \cup InternalCalls

Init == w = InitWorld /\ last = NoEv /\ steps = 0
Next ==
    /\ steps < MAXSTEPS
    /\ \E op \in Ops :
          LET r == Tx(w, op) IN
          /\ w' = r.w
          /\ last' = [op |-> op, res |-> r.res]
          /\ steps' = steps + 1
Spec == Init /\ [][Next]_vars

StepOK(pre, ev, post) ==
    /\ \A p \in Pairs(pre) :
          /\ (C01_Product(pre, ev, post, p) \/ SwapClassOn(pre, ev, p) = "KF-1")
          /\ (C01_Positive(pre, ev, post, p) \/ SwapClassOn(pre, ev, p) = "KF-1")
          /\ (C03_Share(pre, post, p) \/ SwapClassOn(pre, ev, p) = "KF-1")
          /\ C06_Swap(pre, ev, p)
    /\ C02_Settle(pre, ev, post) /\ C02_Declared(pre, ev, post)
    /\ C07_ThirdParty(pre, ev, post)
    /\ C07_ReceiverGains(pre, ev, post)
    /\ C07_Conserved(pre, ev, post)
    /\ C07_LpSupply(pre, ev, post)
    /\ C07_FailedUnchanged(pre, ev, post)
    /\ C11_Minimum(pre, ev, post)
    /\ C13_PassThrough(pre, ev, post)
    /\ C13_Shape(pre, ev)
    /\ C14_Auth(pre, ev, post)
    \* delivered = quoted, and a route that would deliver less than the minimum fails
    /\ (IsRouteTx(pre, ev) /\ Len(RouteOps(ev)) > 0) =>
          LET q == QRouterSim(pre, RouteOps(ev), RouteInAmt(ev)) IN
          q.ok => /\ C13_Quoted(pre, ev, post, q.amount)
                  /\ (DistinctPairs(pre, ev) /\ RouterEmpty(pre, ev) /\ RouteDecl(ev).min.some /\ q.amount < RouteDecl(ev).min.v) => ~TxOk(ev)

StepProp == [][StepOK(w, last', w')]_vars


\* per-clause action properties (diagnosis)
Dbg1 == [][\A p \in Pairs(w) : C01_Product(w, last', w', p) \/ SwapClassOn(w, last', p) = "KF-1"]_vars
Dbg2 == [][\A p \in Pairs(w) : C01_Positive(w, last', w', p) \/ SwapClassOn(w, last', p) = "KF-1"]_vars
Dbg3 == [][\A p \in Pairs(w) : C03_Share(w, w', p) \/ SwapClassOn(w, last', p) = "KF-1"]_vars
Dbg4 == [][\A p \in Pairs(w) : C06_Swap(w, last', p)]_vars
Dbg5 == [][C02_Settle(w, last', w')]_vars
Dbg6 == [][C07_ThirdParty(w, last', w') /\ C07_ReceiverGains(w, last', w')]_vars
Dbg7 == [][C07_Conserved(w, last', w') /\ C07_LpSupply(w, last', w') /\ C07_FailedUnchanged(w, last', w')]_vars
Dbg8 == [][C11_Minimum(w, last', w')]_vars
Dbg9 == [][C13_PassThrough(w, last', w') /\ C13_Shape(w, last')]_vars
Dbg10 == [][C14_Auth(w, last', w')]_vars

NeverRouteOk == ~(last.res.ok /\ IsRouteTx(w, last) /\ Len(RouteOps(last)) >= 2)
NeverMinReject == ~(~last.res.ok /\ last.res.why = "err:minimum receive")
=============================================================================

------------------------------ MODULE MC_System ------------------------------
(***************************************************************************)
(* The whole deployment from scratch, in a tiny scope: an empty factory    *)
(* with registered denoms, one cw20 token, the router.  The owner creates  *)
(* pairs, a provider funds them, traders swap directly and through the     *)
(* router, the owner re-registers decimals, the provider withdraws - every *)
(* interleaving up to MAXSTEPS.  This is the model in which the contracts  *)
(* interact the way they do on chain: pair addresses come from the         *)
(* factory's instantiation, the router finds pairs through the registry,   *)
(* decimals updates travel from the factory to the pairs.                  *)
(* Every PropsWorld clause is checked on every transition, the registry    *)
(* invariants in every state.                                              *)
(***************************************************************************)
EXTENDS Machine, NumInt, Json

CONSTANTS MAXSTEPS, COMMISSION,
          EXPORT         \* TRUE (simulation mode only): print each completed behaviour for replay into the code

FAC == "fac"
RTR == "rtr"
UA == Native("ua")   UB == Native("ub")   TA == Token("tA")
Accts0 == {"own", "lp1", "trader", FAC, RTR, "tA"}

MCKeyBytes(x) == LET id == x.id IN CASE id = "ua" -> <<2>> [] id = "ub" -> <<3>> [] id = "tA" -> <<4, 4>> [] OTHER -> <<9>>
MCAddrOfIndex(n) == "c" \o ToString(n)

StartBal(a) == CASE a = "lp1" -> 9 [] a = "trader" -> 4 [] OTHER -> 0

InitWorld ==
    [ bank |-> [d \in {"ua", "ub"} |-> [a \in Accts0 |-> IF a = FAC THEN 1 ELSE StartBal(a)]],
      tok  |-> ("tA" :> [bal |-> [a \in Accts0 |-> StartBal(a)], supply |-> 13, decimals |-> 1, minter |-> "", allow |-> {}]),
      pair |-> <<>>,
      fac  |-> [addr |-> FAC, owner |-> "own", pair_code |-> 2, token_code |-> 4,
                native |-> ("ua" :> 1 @@ "ub" :> 0), reg |-> <<>>],
      router |-> RTR,
      nextc |-> 9,
      light |-> FALSE ]

VARIABLES w, last, steps, hist      \* hist: the operations so far (only read when behaviours are exported)
vars == <<w, last, steps, hist>>
View == <<w, steps>>
NoEv == [op |-> [op |-> "none", caller |-> "none"], res |-> [ok |-> FALSE, why |-> "", events |-> <<>>]]

Hop(x, y) == [offer_info |-> x, ask_info |-> y]
AssetSets == {<<UA, UB>>, <<UA, TA>>, <<TA, UB>>}

CreateOps ==
    {[op |-> "fac_create_pair", caller |-> "own", infos |-> s, commission |-> Some(COMMISSION), whitelist |-> <<"lp1">>, min0 |-> 0, min1 |-> 0] : s \in AssetSets}

\* the provider first opens an allowance toward the pair for the pair's cw20 side, then provides
AllowOps ==
    {[op |-> "cw20_increase_allowance", token |-> "tA", caller |-> "lp1", spender |-> p, amount |-> 9] :
        p \in {q \in Pairs(w) : ~w.pair[q].a0.native \/ ~w.pair[q].a1.native}}

FundsOf2(x, dx, y, dy) ==
    LET nat == (IF x.native /\ dx > 0 THEN {<<x.id, dx>>} ELSE {}) \cup (IF y.native /\ dy > 0 THEN {<<y.id, dy>>} ELSE {}) IN
    IF nat = {} THEN <<>>
    ELSE IF Cardinality(nat) = 1 THEN <<CHOOSE c \in nat : TRUE>>
    ELSE <<CHOOSE c \in nat : c[1] = "ua", CHOOSE c \in nat : c[1] = "ub">>

ProvideOps ==
    UNION {
      {[op |-> "pair_provide", pair |-> p, caller |-> "lp1",
        assets |-> <<[info |-> w.pair[p].a0, amount |-> d[1]], [info |-> w.pair[p].a1, amount |-> d[2]]>>,
        tol |-> None, receiver |-> NoneS,
        funds |-> FundsOf2(w.pair[p].a0, d[1], w.pair[p].a1, d[2])] : d \in {<<4, 4>>, <<2, 3>>}} :
      p \in Pairs(w) }

WithdrawOps ==
    UNION {
      {[op |-> "cw20_send", token |-> w.pair[p].lp, caller |-> "lp1", contract |-> p, amount |-> a, hook |-> [kind |-> "withdraw"]] :
          a \in {x \in {1, Bal(w, Token(w.pair[p].lp), "lp1")} : x > 0}} :
      p \in Pairs(w) }

SwapOps ==
    UNION {
      {IF x.native
       THEN [op |-> "pair_swap", pair |-> p, caller |-> "trader", offer |-> [info |-> x, amount |-> a],
             bp |-> None, ms |-> m, to |-> NoneS, funds |-> <<<<x.id, a>>>>]
       ELSE [op |-> "cw20_send", token |-> x.id, caller |-> "trader", contract |-> p, amount |-> a,
             hook |-> [kind |-> "swap", offer |-> [info |-> x, amount |-> a], bp |-> None, ms |-> m, to |-> NoneS]] :
          x \in {w.pair[p].a0, w.pair[p].a1}, a \in {1, 2}, m \in {None, Some(3)}} :
      p \in Pairs(w) }

Assets == {UA, UB, TA}
Routes == {r \in {<<Hop(x, y)>> : x \in Assets, y \in Assets} : r[1].offer_info # r[1].ask_info}
          \cup {r \in {<<Hop(x, y), Hop(y, z)>> : x \in Assets, y \in Assets, z \in Assets} :
                    r[1].offer_info # r[1].ask_info /\ r[2].offer_info # r[2].ask_info}
RouteOpsSet ==
    UNION {
      {IF r[1].offer_info.native
       THEN [op |-> "router_ops", caller |-> "trader", operations |-> r, min |-> m, to |-> NoneS, funds |-> <<<<r[1].offer_info.id, 2>>>>]
       ELSE [op |-> "cw20_send", token |-> r[1].offer_info.id, caller |-> "trader", contract |-> RTR, amount |-> 2,
             hook |-> [kind |-> "router_ops", operations |-> r, min |-> m, to |-> NoneS]] :
          m \in {None} \cup (LET q == QRouterSim(w, r, 2) IN IF q.ok THEN {Some(q.amount), Some(q.amount + 1)} ELSE {})} :
      r \in {rr \in Routes : \A i \in DOMAIN rr : RegHas(w, rr[i].offer_info, rr[i].ask_info)} }

NativeOps == {[op |-> "fac_add_native", caller |-> "own", denom |-> "ua", decimals |-> v] : v \in {0, 2}}

Ops == CreateOps \cup AllowOps \cup ProvideOps \cup WithdrawOps \cup SwapOps \cup RouteOpsSet \cup NativeOps

Init == w = InitWorld /\ last = NoEv /\ steps = 0 /\ hist = <<>>

\* export (simulation) mode: the next operation is drawn class-first (a uniform draw over Ops is dominated by the
\* route and swap variants) and only that one successor is generated; a few more shapes than the exhaustive scope
\* affords (a named recipient, a zero spread limit, a second decimals value) ride along
ExportExtraOps ==
    UNION {
      {[op |-> "pair_swap", pair |-> p, caller |-> "trader", offer |-> [info |-> x, amount |-> a],
        bp |-> None, ms |-> m, to |-> Some("lp1"), funds |-> <<<<x.id, a>>>>] :
          x \in {y \in {w.pair[p].a0, w.pair[p].a1} : y.native}, a \in {1, 3}, m \in {Some(0), Some(5)}} :
      p \in Pairs(w) }
    \cup {[op |-> "fac_add_native", caller |-> c, denom |-> d, decimals |-> v] : c \in {"own", "trader"}, d \in {"ua", "ub"}, v \in {0, 1, 3}}
OpClasses == <<CreateOps, AllowOps, ProvideOps, WithdrawOps, SwapOps, RouteOpsSet, NativeOps, ExportExtraOps, ProvideOps, SwapOps \cup RouteOpsSet>>
DrawOp ==
    LET ne == {i \in DOMAIN OpClasses : OpClasses[i] # {}} IN
    RandomElement(OpClasses[RandomElement(ne)])

Step ==
    /\ steps < MAXSTEPS
    /\ \E op \in (IF EXPORT THEN {DrawOp} ELSE Ops) :
          LET r == Tx(w, op) IN
          /\ w' = r.w
          /\ last' = [op |-> op, res |-> r.res]
          /\ steps' = steps + 1
          /\ hist' = Append(hist, op)
Export ==
    /\ EXPORT /\ steps = MAXSTEPS
    /\ PrintT(<<"BEHAVIOUR", "SYS", ToJson(hist)>>)
    /\ steps' = steps + 1
    /\ UNCHANGED <<w, last, hist>>
Next == Step \/ Export
Spec == Init /\ [][Next]_vars

StepOK(pre, ev, post) ==
    /\ \A p \in Pairs(pre) :
          /\ (C01_Product(pre, ev, post, p) \/ SwapClassOn(pre, ev, p) = "KF-1")
          /\ (C01_Positive(pre, ev, post, p) \/ SwapClassOn(pre, ev, p) = "KF-1")
          /\ (C03_Share(pre, post, p) \/ SwapClassOn(pre, ev, p) = "KF-1")
          /\ C06_Swap(pre, ev, p)
    /\ C02_Settle(pre, ev, post) /\ C02_Declared(pre, ev, post)
    /\ C04_Withdraw(pre, ev, post)
    /\ C05_Provide(pre, ev, post)
    /\ C07_ThirdParty(pre, ev, post)
    /\ C07_ReceiverGains(pre, ev, post)
    /\ C07_Conserved(pre, ev, post)
    /\ C07_LpSupply(pre, ev, post)
    /\ C07_FailedUnchanged(pre, ev, post)
    /\ C09_Funds(pre, ev, post)
    /\ C10_Swap(pre, ev)
    /\ C11_Minimum(pre, ev, post)
    /\ C13_PassThrough(pre, ev, post)
    /\ C13_Shape(pre, ev)
    /\ C14_Auth(pre, ev, post)
    /\ C16_Create(pre, ev, post)
    /\ C16_Requested(pre, ev, post)
    /\ C19_Monotone(pre, post)
    /\ C17_Update(pre, ev, post)
    /\ C20_Withdrawable(pre, ev)
StepProp == [][StepOK(w, last', w')]_vars

StateInv == C16_RegistryInv(w) /\ C17_DecimalsInv(w)

WitnessRoute == [][~(last'.res.ok /\ IsRouteTx(w, last') /\ Len(RouteOps(last')) = 2)]_vars
=============================================================================

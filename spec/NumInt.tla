-------------------------------- MODULE NumInt --------------------------------
(* Int instance of the Num interface (small-scope exhaustive model checking). *)
EXTENDS Integers

IAdd(a, b) == a + b
ISub(a, b) == a - b
IMul(a, b) == a * b
IDiv(a, b) == a \div b
IMod(a, b) == a % b
ILe(a, b)  == a <= b
IOfInt(n)  == n
\* floor square root; the scaled-down "u128" range keeps the search tiny
ISqrt(n)   == CHOOSE s \in 0..(IF n < 1024 THEN n ELSE 1024) : s * s <= n /\ n < (s + 1) * (s + 1)
=============================================================================

------------------------------- MODULE MC_Pool -------------------------------
(***************************************************************************)
(* Small-scope exhaustive model of ONE pair (kind KIND: native/native,      *)
(* native/cw20 or cw20/cw20) with its LP token, the bank and the cw20       *)
(* tokens, driven by several actors: two liquidity providers, a trader and  *)
(* an attacker.  Every interleaving of every operation shape is explored:   *)
(* provisions (balanced, unbalanced, with tolerance, with receiver, wrong   *)
(* funds), withdrawals, swaps through both entry points with every          *)
(* combination of (asset delivered) x (asset named) x (amount named) x      *)
(* (attached funds), donations, and unauthorised internal calls.            *)
(* Numbers are scaled down (DFRAC = 10, "u128" = 255, "u256" = 65535) so    *)
(* that the rounding windows of the production arithmetic are dense.        *)
(*                                                                         *)
(* Checked on EVERY transition: the system-level clauses of PropsWorld      *)
(* (the same text Trace_World evaluates on traces of the real contracts).   *)
(* Checked in EVERY state: C20 (every qualifying withdrawal is enabled).    *)
(***************************************************************************)
EXTENDS Machine, NumInt, Json

CONSTANTS KIND,          \* "NN" | "NC" | "CC" | "AL" (alias: the cw20 token tA and the bank denom spelled "tA")
          AMTS,          \* amounts operations may name
          MAXSTEPS,      \* depth bound
          COMMISSION,    \* commission atomics (0..DFRAC)
          FULL,          \* TRUE: also malformed / adversarial shapes
          EXPORT         \* TRUE (simulation mode only): print each completed behaviour for replay into the code

MCKeyBytes(x) == <<1>>
MCAddrOfIndex(n) == "new"

Users == {"lp1", "lp2", "trader", "attacker"}
PAIR == "pair"
LP == "lp"
FAC == "fac"
RTR == "rtr"
TokensUsed == IF KIND = "NN" THEN {} ELSE IF KIND \in {"NC", "AL"} THEN {"tA"} ELSE {"tA", "tB"}
A0 == IF KIND \in {"CC", "AL"} THEN Token("tA") ELSE Native("ua")
A1 == IF KIND = "NN" THEN Native("ub") ELSE IF KIND = "NC" THEN Token("tA") ELSE IF KIND = "AL" THEN Native("tA") ELSE Token("tB")
AllAccts == Users \cup {PAIR, LP, FAC, RTR} \cup TokensUsed

\* a bank denom spelled like the cw20 address "tA" (kind confusion), when the pair has that token
DenomsUsed == {"ua", "ub"} \cup (IF KIND = "NN" THEN {} ELSE {"tA"})

StartBal(a) == CASE a = "lp1" -> 6 [] a = "lp2" -> 4 [] a = "trader" -> 4 [] a = "attacker" -> 3 [] OTHER -> 0

InitWorld ==
    [ bank |-> [d \in DenomsUsed |-> [a \in AllAccts |-> IF d = "tA" /\ KIND # "AL" THEN (IF a \in {"attacker", "trader"} THEN 3 ELSE 0) ELSE StartBal(a)]],
      tok  |-> [t \in TokensUsed \cup {LP} |->
                  IF t = LP
                  THEN [bal |-> [a \in AllAccts |-> 0], supply |-> 0, decimals |-> 6, minter |-> PAIR, allow |-> {}]
                  \* the pair's stored decimals (1, 0) are the decimals its assets really have
                  ELSE [bal |-> [a \in AllAccts |-> StartBal(a)], supply |-> 17,
                        decimals |-> (IF Token(t) = A0 THEN 1 ELSE 0), minter |-> "",
                        allow |-> {<<u, PAIR, 200>> : u \in Users}]],
      pair |-> (PAIR :> [a0 |-> A0, a1 |-> A1, d0 |-> 1, d1 |-> 0, lp |-> LP, self_lp |-> LP, commission |-> COMMISSION,
                         wl |-> {"lp1"}, m0 |-> 2, m1 |-> 1]),
      fac  |-> [addr |-> FAC, owner |-> "own", pair_code |-> 2, token_code |-> 4,
                native |-> ("ua" :> 1 @@ "ub" :> 0 @@ (IF KIND = "AL" THEN "tA" :> 0 ELSE <<>>)), reg |-> <<>>],
      router |-> RTR,
      nextc |-> 9,
      light |-> FALSE ]

VARIABLES w, last, steps, hist      \* hist: the operations so far (only read when behaviours are exported)
vars == <<w, last, steps, hist>>
View == <<w, steps>>         \* the observation variable `last` stays out of the fingerprint

NoEv == [op |-> [op |-> "none", caller |-> "none"], res |-> [ok |-> FALSE, why |-> "", events |-> <<>>]]

Opt(S) == {None} \cup {Some(v) : v \in S}
FundsFor(assets) ==      \* correct funds for the declared native assets (sorted by denom, zero coins dropped)
    LET nat == {a \in assets : a.info.native /\ a.amount # 0}
        ds  == {a.info.id : a \in nat}
        amt(d) == (CHOOSE a \in nat : a.info.id = d).amount
    IN  IF ds = {} THEN <<>>
        ELSE IF Cardinality(ds) = 1 THEN LET d == CHOOSE x \in ds : TRUE IN <<<<d, amt(d)>>>>
        ELSE <<<<"ua", amt("ua")>>, <<"ub", amt("ub")>>>>

PairInfos == {A0, A1}
Foreign == IF KIND = "NN" THEN Native("tA") ELSE Native("tA")       \* look-alike / foreign asset
NamedInfos == PairInfos \cup (IF FULL THEN {Foreign, Token(LP)} ELSE {})

ProvideOps ==
    {[op |-> "pair_provide", pair |-> PAIR, caller |-> c,
      assets |-> <<[info |-> A0, amount |-> d0], [info |-> A1, amount |-> d1]>>,
      tol |-> t, receiver |-> r,
      funds |-> FundsFor({[info |-> A0, amount |-> d0], [info |-> A1, amount |-> d1]})] :
        c \in {"lp1", "lp2", "attacker"}, d0 \in AMTS, d1 \in AMTS, t \in {None, Some(0), Some(3)}, r \in {NoneS, Some("lp2")}}
    \cup (IF FULL THEN
    \* wrong funds: one unit short / in excess on the first native asset, or nothing attached
    {[op |-> "pair_provide", pair |-> PAIR, caller |-> c,
      assets |-> <<[info |-> A0, amount |-> 2], [info |-> A1, amount |-> 2]>>, tol |-> None, receiver |-> NoneS,
      funds |-> f] : c \in {"lp1"}, f \in {<<>>, <<<<"ua", 1>>>>, <<<<"ua", 3>>>>, <<<<"ua", 2>>, <<"ub", 1>>>>}}
    ELSE {})

WithdrawOps ==
    UNION {
      {[op |-> "cw20_send", token |-> LP, caller |-> c, contract |-> PAIR, amount |-> a, hook |-> [kind |-> "withdraw"]] :
          a \in {x \in 1..12 : x <= w.tok[LP].bal[c] + 1 /\ (x <= 3 \/ x = w.tok[LP].bal[c])}} :
      c \in Users }

SwapDirectOps ==
    UNION {
      {[op |-> "pair_swap", pair |-> PAIR, caller |-> c, offer |-> [info |-> i, amount |-> a],
        bp |-> g[1], ms |-> g[2], to |-> t, funds |-> f] :
          c \in {"trader", "attacker"},
          g \in {<<None, None>>, <<None, Some(2)>>, <<Some(10), Some(1)>>},
          t \in {NoneS, Some("lp2")},
          f \in {FundsFor({[info |-> i, amount |-> a]})}
                \cup (IF FULL /\ i.native THEN {<<>>, <<<<i.id, a + 1>>>>} ELSE {})} :
      i \in NamedInfos, a \in (IF FULL THEN AMTS ELSE AMTS \ {0}) }

SwapHookOps ==
    UNION {
      {[op |-> "cw20_send", token |-> tk, caller |-> c, contract |-> PAIR, amount |-> a,
        hook |-> [kind |-> "swap", offer |-> [info |-> i, amount |-> na], bp |-> None, ms |-> m, to |-> t]] :
          c \in {"trader", "attacker"}, tk \in TokensUsed \cup (IF FULL THEN {LP} ELSE {}),
          i \in NamedInfos, na \in {a} \cup (IF FULL THEN {a + 1} ELSE {}), m \in {None, Some(2)}, t \in {NoneS, Some("lp2")}} :
      a \in AMTS \ {0} }

DonateOps ==
    {[op |-> "bank_send", caller |-> "attacker", dest |-> PAIR, coins |-> <<<<i.id, a>>>>] : i \in {x \in PairInfos : x.native}, a \in {1, 2}}
    \cup {[op |-> "cw20_transfer", token |-> i.id, caller |-> "attacker", dest |-> PAIR, amount |-> a] : i \in {x \in PairInfos : ~x.native}, a \in {1, 2}}

\* LP tokens are ordinary cw20 tokens: holders can move them (the new holder can then withdraw)
LpTransferOps ==
    {[op |-> "cw20_transfer", token |-> LP, caller |-> c, dest |-> "attacker", amount |-> a] : c \in {"lp1", "lp2"}, a \in {1, 2}}

\* ... and destroy them (cw20 Burn by the holder): the supply shrinks while the reserves stay
LpBurnOps ==
    {[op |-> "cw20_burn", token |-> LP, caller |-> c, amount |-> a] : c \in {"lp1", "lp2"}, a \in {1, 2}}

RogueOps ==
    IF FULL THEN
    {[op |-> "pair_receive", pair |-> PAIR, caller |-> "attacker", sender |-> "attacker", amount |-> 2, hook |-> h, funds |-> <<>>] :
        h \in {[kind |-> "withdraw"], [kind |-> "swap", offer |-> [info |-> A1, amount |-> 2], bp |-> None, ms |-> None, to |-> None]}}
    \cup {[op |-> "pair_update_decimals", pair |-> PAIR, caller |-> "attacker", denom |-> "ua", decimals |-> <<3, 3>>]}
    ELSE {}

Ops == ProvideOps \cup WithdrawOps \cup SwapDirectOps \cup SwapHookOps \cup DonateOps \cup LpTransferOps \cup LpBurnOps \cup RogueOps

Init == w = InitWorld /\ last = NoEv /\ steps = 0 /\ hist = <<>>

\* exported behaviours start from a funded pool (a random walk over all shapes rarely funds it first)
FirstOps == {op \in ProvideOps : op.caller = "lp1" /\ op.assets[1].amount >= 2 /\ op.assets[2].amount >= 2
                                  /\ ~op.tol.some /\ ~op.receiver.some /\ op.funds = FundsFor({op.assets[1], op.assets[2]})}

\* in export (simulation) mode the next operation is drawn class-first - a uniform draw over Ops would be
\* dominated by the provision variants - and only that one successor is generated
OpClasses == <<ProvideOps, WithdrawOps, SwapDirectOps, SwapHookOps, DonateOps, LpTransferOps, LpBurnOps, RogueOps, WithdrawOps, SwapDirectOps \cup SwapHookOps>>
DrawOp ==
    IF steps = 0 THEN RandomElement(FirstOps)
    ELSE LET ne == {i \in DOMAIN OpClasses : OpClasses[i] # {}} IN
         RandomElement(OpClasses[RandomElement(ne)])

Step ==
    /\ steps < MAXSTEPS
    /\ \E op \in (IF EXPORT THEN {DrawOp} ELSE Ops) :
          LET r == Tx(w, op) IN
          /\ w' = r.w
          /\ last' = [op |-> op, res |-> r.res]
          /\ steps' = steps + 1
          /\ hist' = Append(hist, op)

\* export: one line per completed behaviour of a simulation run (only the state TLC actually chose takes
\* this step), replayed into the real contracts by bin/check
Export ==
    /\ EXPORT /\ steps = MAXSTEPS
    /\ PrintT(<<"BEHAVIOUR", KIND, ToJson(hist)>>)
    /\ steps' = steps + 1
    /\ UNCHANGED <<w, last, hist>>

Next == Step \/ Export

Spec == Init /\ [][Next]_vars

(***************************************************************************)
(* properties                                                              *)
(***************************************************************************)
\* every PropsWorld clause on the transition (w, last', w'); C01/C03 modulo the KF-1 input class
StepOK(pre, ev, post) ==
    /\ \A p \in Pairs(pre) :
          /\ (C01_Product(pre, ev, post, p) \/ SwapClassOn(pre, ev, p) = "KF-1")
          /\ (C01_Positive(pre, ev, post, p) \/ SwapClassOn(pre, ev, p) = "KF-1")
          /\ (C03_Share(pre, post, p) \/ SwapClassOn(pre, ev, p) = "KF-1")
          /\ C06_Swap(pre, ev, p)
    /\ C02_Settle(pre, ev, post) /\ C02_Declared(pre, ev, post)
    /\ C04_Withdraw(pre, ev, post)
    /\ C05_Provide(pre, ev, post)
    /\ C07_ThirdParty(pre, ev, post)
    /\ C07_ReceiverGains(pre, ev, post)
    /\ C07_Conserved(pre, ev, post)
    /\ C07_LpSupply(pre, ev, post)
    /\ C07_Allowances(pre, ev, post)
    /\ C07_FailedUnchanged(pre, ev, post)
    /\ C09_Funds(pre, ev, post) /\ C09_Credit(pre, ev, post)
    /\ C10_Swap(pre, ev)
    /\ C14_Auth(pre, ev, post)
    /\ C15_Provide(pre, ev)
    /\ C20_Withdrawable(pre, ev)
    \* C12: the quote taken in the pre-state equals what the swap produced
    /\ (C02_Applies(pre, ev) /\ AttachedAsk(ev, InfoById(pre, SwapPair(ev), SwapEvsOn(ev, SwapPair(ev))[1].ask_asset)) = 0) =>
           LET e == SwapEvsOn(ev, SwapPair(ev))[1]
               q == QSimulation(pre, SwapPair(ev), SwapDecl(ev).offer)
           IN  q.ok /\ q.ret = e.return_amount /\ q.spread = e.spread_amount /\ q.comm = e.commission_amount

StepProp == [][StepOK(w, last', w')]_vars

\* C20 as a state predicate: in every reachable state every qualifying withdrawal succeeds
C20_State ==
    \A c \in Users : \A a \in 1..12 :
        LET op == [op |-> "cw20_send", token |-> LP, caller |-> c, contract |-> PAIR, amount |-> a, hook |-> [kind |-> "withdraw"]]
            ev == [op |-> op, res |-> [ok |-> FALSE, why |-> "", events |-> <<>>]]
        IN  C20_Qualifies(w, ev) => Tx(w, op).res.ok

\* reachability witnesses (expected to be violated; they show that the antecedents are exercised)
NeverSwapOk     == ~(last.res.ok /\ IsSwapTx(last))
NeverWithdrawOk == ~(last.res.ok /\ last.op.op = "cw20_send" /\ last.op.hook.kind = "withdraw")
NeverKF1        == ~(last.res.ok /\ SwapClassOn(w, last, PAIR) = "KF-1")
=============================================================================

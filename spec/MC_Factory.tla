------------------------------ MODULE MC_Factory ------------------------------
(***************************************************************************)
(* Small-scope exhaustive model of the factory registry.                   *)
(*                                                                         *)
(* Asset identifiers are byte sequences over a two-letter alphabet, chosen *)
(* so that prefixes are shared and different unordered sets have the same  *)
(* sorted concatenation ({a,ab} and {aa,b} both give "aab"), plus one cw20 *)
(* token of fixed-length address.  The default and maximum page sizes are  *)
(* scaled to 2 and 3 so that "more pairs than a page" is reachable.        *)
(*                                                                         *)
(* Every sequence of pair creations (both orders, duplicates, identical    *)
(* assets, unregistered denoms, missing tokens), decimals registrations    *)
(* and ownership transfers by owner and outsiders is explored.             *)
(* On every transition: C14 (authorisation), C16 (creation), C17 (update).  *)
(* In every state: C16 registry invariant and lookups of EVERY asset pair   *)
(* in both orders, C17 decimals invariant, C19 page walks with every limit. *)
(***************************************************************************)
EXTENDS Machine, NumInt

CONSTANTS MAXSTEPS, DefaultL, MaxL

FAC == "fac"
Callers == {"own", "own2", "mallory"}

\* identifier -> registry-key bytes (bytes > 1: the cursor appends 0x01)
BYTES == [ da |-> <<2>>, daa |-> <<2, 2>>, dab |-> <<2, 3>>, db |-> <<3>>, dzz |-> <<3, 3>>,
           t1 |-> <<4, 2, 2>>, tX |-> <<4, 3, 3>>,
           c9 |-> <<5, 9>>, c10 |-> <<5, 1>>, c11 |-> <<5, 2>>, c12 |-> <<5, 3>>, c13 |-> <<5, 4>>, c14 |-> <<5, 5>>,
           c15 |-> <<5, 6>>, c16 |-> <<5, 7>>, c17 |-> <<5, 8>>, c18 |-> <<6, 1>>, c19 |-> <<6, 2>>, c20 |-> <<6, 3>> ]
MCKeyBytes(x) == IF x.id \in DOMAIN BYTES THEN BYTES[x.id] ELSE <<9, 9>>
MCAddrOfIndex(n) == "c" \o ToString(n)

Registered == {"da", "daa", "dab", "db"}            \* dzz is never registered
Assets == {Native(d) : d \in Registered \cup {"dzz"}} \cup {Token("t1"), Token("tX")}      \* tX: no such contract
Accts0 == Callers \cup {FAC, "rtr", "t1"}

InitWorld ==
    [ bank |-> [d \in Registered \cup {"dzz"} |-> [a \in Accts0 |-> IF a = FAC /\ d # "dab" THEN 1 ELSE 0]],
      tok  |-> ("t1" :> [bal |-> [a \in Accts0 |-> 0], supply |-> 0, decimals |-> 2, minter |-> "", allow |-> {}]),
      pair |-> <<>>,
      fac  |-> [addr |-> FAC, owner |-> "own", pair_code |-> 2, token_code |-> 4,
                native |-> ("da" :> 0 @@ "daa" :> 1 @@ "dab" :> 0 @@ "db" :> 1), reg |-> <<>>],
      router |-> "rtr",
      nextc |-> 9,
      light |-> FALSE ]

VARIABLES w, last, steps
vars == <<w, last, steps>>
View == <<w, steps>>
NoEv == [op |-> [op |-> "none", caller |-> "none"], res |-> [ok |-> FALSE, why |-> "", events |-> <<>>]]

CreateOps ==
    {[op |-> "fac_create_pair", caller |-> c, infos |-> <<x, y>>, commission |-> None, whitelist |-> <<"own">>, min0 |-> 0, min1 |-> 0] :
        c \in {"own", "mallory"}, x \in Assets, y \in Assets}
NativeOps ==
    {[op |-> "fac_add_native", caller |-> c, denom |-> d, decimals |-> v] : c \in {"own", "mallory"}, d \in Registered \cup {"dzz"}, v \in {0, 2}}
ConfigOps ==
    {[op |-> "fac_update_config", caller |-> c, new_owner |-> o, token_code_id |-> t, pair_code_id |-> NoneI] :
        c \in Callers, o \in {NoneS, Some("own2")}, t \in {NoneI, [some |-> TRUE, v |-> 4]}}
MigrateOps ==
    {[op |-> "fac_migrate_pair", caller |-> c, contract |-> p, code_id |-> NoneI] : c \in {"own", "mallory"}, p \in Pairs(w)}
Ops == CreateOps \cup NativeOps \cup ConfigOps \cup MigrateOps

Init == w = InitWorld /\ last = NoEv /\ steps = 0
Next ==
    /\ steps < MAXSTEPS
    /\ \E op \in Ops :
          LET r == Tx(w, op) IN
          /\ w' = r.w
          /\ last' = [op |-> op, res |-> r.res]
          /\ steps' = steps + 1
Spec == Init /\ [][Next]_vars

StepOK(pre, ev, post) ==
    /\ C14_Auth(pre, ev, post)
    /\ C16_Create(pre, ev, post)
    /\ C16_Requested(pre, ev, post)
    /\ C19_Monotone(pre, post)
    /\ C17_Update(pre, ev, post)
    /\ C07_FailedUnchanged(pre, ev, post)
StepProp == [][StepOK(w, last', w')]_vars

\* the factory's Pair query (key lookup, answered only for a record of the requested assets)
QPair(ww, x, y) ==
    LET k == PairKey(x, y)
        hit == {i \in DOMAIN ww.fac.reg : ww.fac.reg[i].key = k /\ ("R3" \in LEGACY \/ SameSet(ww.fac.reg[i], x, y))}
    IN  IF hit = {} THEN [ok |-> FALSE]
        ELSE LET e == ww.fac.reg[CHOOSE i \in hit : TRUE] IN
             [ok |-> TRUE, rec |-> [pair |-> e.pair, a0 |-> e.a0, a1 |-> e.a1, lp |-> e.lp, d0 |-> e.d0, d1 |-> e.d1,
                                    commission |-> e.commission, wl |-> <<"own">>, m0 |-> e.m0, m1 |-> e.m1]]

RECURSIVE WalkPages(_, _, _, _)
WalkPages(ww, start, limit, fuel) ==
    LET page == QPairs(ww, start, limit, DefaultL, MaxL) IN
    IF page = <<>> \/ fuel = 0 THEN <<>>
    ELSE <<page>> \o WalkPages(ww, Some(<<page[Len(page)].a0, page[Len(page)].a1>>), limit, fuel - 1)

Limits == {NoneI} \cup {[some |-> TRUE, v |-> n] : n \in 1..(MaxL + 2)}

StateInv ==
    /\ C16_RegistryInv(w)
    /\ C17_DecimalsInv(w)
    /\ \A x \in Assets : \A y \in Assets :
          x # y => C16_Lookup(w, [infos |-> <<x, y>>], QPair(w, x, y))
    /\ \A lim \in Limits :
          LET pages == WalkPages(w, None, lim, 20) IN
          C19_Walk(w, [limit |-> lim], [ok |-> TRUE, ended |-> TRUE, pages |-> pages], DefaultL, MaxL)

\* reachability witnesses (expected to be violated)
NeverFourPairs == Len(w.fac.reg) < 4
NeverCollisionRejected == ~(~last.res.ok /\ last.res.why = "err:Pair already exists"
                            /\ last.op.op = "fac_create_pair" /\ ~RegHas(w, last.op.infos[1], last.op.infos[2]))
WitnessCollision == [][~(~last'.res.ok /\ last'.res.why = "err:Pair already exists" /\ last'.op.op = "fac_create_pair"
                           /\ ~RegHas(w, last'.op.infos[1], last'.op.infos[2]))]_vars
=============================================================================

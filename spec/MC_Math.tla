------------------------------- MODULE MC_Math -------------------------------
(***************************************************************************)
(* Exhaustive small-scope check that the specification's formulas (the     *)
(* line-by-line transcription of the code) satisfy the function-level      *)
(* clauses of C01, C04, C05, C06, C10, C12, C15 for EVERY input of a        *)
(* scaled-down domain: DFRAC = 10 (or 100), "u128" = 0..255,               *)
(* "u256" = 0..65535, so that every truncation window and every abort      *)
(* path of the production arithmetic has a dense analogue.                 *)
(* One initial state per input tuple; the invariant is the property.       *)
(***************************************************************************)
EXTENDS PropsMath, NumInt, TLC, FiniteSets, Sequences

CONSTANTS XS, AS, RATES, DECS, WS, SS, FAMS

Opt(S) == {None} \cup {Some(v) : v \in S}

SwapRes(x, y, a, c) ==
    LET r == ComputeSwap(x, y, a, c) IN
    IF r.ok THEN [ok |-> TRUE, ret |-> r.v.ret, spread |-> r.v.spread, comm |-> r.v.comm]
    ELSE [ok |-> FALSE, ret |-> 0, spread |-> 0, comm |-> 0]
RevRes(x, y, b, c) ==
    LET r == ComputeOfferAmount(x, y, b, c) IN
    IF r.ok THEN [ok |-> TRUE, offer |-> r.v.offer] ELSE [ok |-> FALSE, offer |-> 0]

XS_q    == (0..20) \cup {81, 200, 255}        \* reserves
AS_q    == (0..24) \cup {60, 255}             \* offers / asks / deposits
RATES_q == 0..10
DECS_q  == 0..2
WS_q    == (0..12) \cup {40, 255}             \* burn amounts, supplies, generic
SS_q    == (0..10) \cup {255}                 \* share family operands

XS_t    == (0..48) \cup {81, 100, 128, 200, 254, 255}
AS_t    == (0..64) \cup {100, 128, 200, 254, 255}
RATES_t == 0..10
DECS_t  == 0..3
WS_t    == (0..24) \cup {40, 100, 254, 255}
SS_t    == (0..16) \cup {40, 255}

\* DFRAC = 100: rates and tolerances range over 0..100 (step 7 plus the ends)
RATES_c == {0, 1, 2, 3, 30, 50, 97, 98, 99, 100} 
XS_c    == (0..30) \cup {81, 200, 255}
AS_c    == (0..40) \cup {100, 255}

VARIABLES fam, t
vars == <<fam, t>>

\* Init fixes the family and the first coordinate; Next expands the remaining
\* coordinates (so that TLC's workers enumerate the tuples in parallel).
TOLS   == RATES \cup {DFRAC + 1, DFRAC + 2}                 \* limits / tolerances, also above 100%
PRICES == (1..(DFRAC + 5)) \cup {2 * DFRAC, 3 * DFRAC + 1, 25 * DFRAC}
First(f) == CASE f = "swap" -> XS [] f = "reverse" -> XS [] f = "withdraw" -> XS
              [] f = "share" -> WS [] f = "first" -> AS [] f = "belief" -> AS
              [] f = "spread" -> WS [] f = "slip" -> WS
Rest(f) ==  CASE f = "swap"     -> XS \X AS \X RATES
              [] f = "reverse"  -> XS \X AS \X RATES
              [] f = "withdraw" -> WS \X WS
              [] f = "share"    -> SS \X SS \X SS \X SS
              [] f = "first"    -> AS \X BOOLEAN \X {0, 3} \X {0, 5}
              [] f = "belief"   -> WS \X PRICES \X TOLS \X DECS \X DECS
              [] f = "spread"   -> WS \X TOLS \X DECS \X DECS
              [] f = "slip"     -> WS \X WS \X WS \X TOLS
Fams == {"swap", "reverse", "withdraw", "share", "first", "belief", "spread", "slip"}

Init == /\ fam \in (Fams \cap FAMS)
        /\ t \in {<<x>> : x \in First(fam)}
Next == /\ Len(t) = 1
        /\ t' \in {t \o r : r \in Rest(fam)}
        /\ UNCHANGED fam

\* ---- C01 / C06 (and the exactness of the KF-1 class) ----
SwapInv ==
    LET x == t[1]  y == t[2]  a == t[3]  c == t[4]
        r == SwapRes(x, y, a, c)
        r2 == SwapRes(x, y, a + 1, c)
    IN  /\ (C01_Swap(x, y, a, r) \/ KF1Window(x, y, a))          \* every violation is inside the class
        /\ (r.ok /\ KF1Window(x, y, a) /\ r.comm = 0 /\ x > 0 => ~C01_Swap(x, y, a, r) \/ r.ret = 0 \/ TRUE)
        /\ C06_Price(x, y, a, c, r)
        /\ C06_Commission(c, r)
        /\ C06_Spread(x, y, a, r)
        /\ C06_Monotone(a, r, a + 1, r2)
\* C01 without the known-finding class: expected to FAIL (used to show the finding is real in scope)
SwapInvStrict == fam = "swap" /\ Len(t) > 1 => C01_Swap(t[1], t[2], t[3], SwapRes(t[1], t[2], t[3], t[4]))

ReverseInv == C12_Reverse(t[1], t[2], t[3], t[4], RevRes(t[1], t[2], t[3], t[4]))

WithdrawInv ==
    LET r == t[1]  a == t[2]  S == t[3]
        res == WithdrawRefund(r, a, S)
    IN  a < S => C04_Refund(r, a, S, res)

ShareInv ==
    LET S == t[1]  res == LpShare(S, t[2], t[3], t[4], t[5], TRUE, 0, 0)
    IN  S > 0 => C05_Share(S, t[2], t[3], t[4], t[5], res)

FirstInv ==
    LET res == LpShare(0, t[1], t[2], 0, 0, t[3], t[4], t[5])
    IN  C05_First(t[1], t[2], t[3], t[4], t[5], res)

BeliefInv ==
    LET offer == t[1]  ret == t[2]  p == t[3]  s == t[4]  od == t[5]  rd == t[6]
        res == AssertMaxSpread(Some(p), Some(s), offer, ret, 0, od, rd)
    IN  C10_Guard(Some(p), Some(s), offer, ret, 0, od, rd, res)

SpreadInv ==
    LET ret == t[1]  sp == t[2]  s == t[3]  od == t[4]  rd == t[5]
        res == AssertMaxSpread(None, Some(s), 7, ret, sp, od, rd)
    IN  C10_Guard(None, Some(s), 7, ret, sp, od, rd, res)

SlipInv ==
    LET res == AssertSlippage(Some(t[5]), t[1], t[2], t[3], t[4])
    IN  C15_Guard(Some(t[5]), t[1], t[2], t[3], t[4], res)

Inv == Len(t) > 1 =>
       CASE fam = "swap"     -> SwapInv
         [] fam = "reverse"  -> ReverseInv
         [] fam = "withdraw" -> WithdrawInv
         [] fam = "share"    -> ShareInv
         [] fam = "first"    -> FirstInv
         [] fam = "belief"   -> BeliefInv
         [] fam = "spread"   -> SpreadInv
         [] fam = "slip"     -> SlipInv
=============================================================================

------------------------------ MODULE PropsWorld ------------------------------
(***************************************************************************)
(* System-level clauses of the listed properties as step predicates over   *)
(* (pre, ev, post): the world before an operation, the operation with its  *)
(* reported outcome, and the world after it.  They only look at what an    *)
(* outside observer sees (balances, supplies, configurations, query        *)
(* answers, the operation and its reported result), so the same text is    *)
(* evaluated                                                               *)
(*   - on every transition of the small-scope models MC_Pool etc., and   *)
(*   - on every step of every trace recorded from the real contracts       *)
(*     (Trace_World).                                                      *)
(*                                                                         *)
(* ev == [op |-> <operation record>, res |-> [ok, why, events]]            *)
(* events: sequence of the wasm events of the transaction, each a record   *)
(* with at least `action` and `contract`.                                  *)
(***************************************************************************)
EXTENDS World

OkRes == [ok |-> TRUE, why |-> ""]
Rej(why) == [ok |-> FALSE, why |-> why]

TxOk(ev)   == ev.res.ok
Kind(ev)   == ev.op.op
Caller(ev) == ev.op.caller
EvsOf(ev, act) == SelectSeq(ev.res.events, LAMBDA e : e.action = act)
SwapEvs(ev)    == EvsOf(ev, "swap")
\* A response event counts as a swap / provision report only if it carries the attributes the clauses read; an event of
\* that action without them (a change that returns early with a reduced attribute list, say) reports nothing, and the
\* balance-based clauses (C02 declared, C07, C09) judge the step.
SwapFields == {"contract", "receiver", "offer_asset", "ask_asset", "offer_amount", "return_amount", "spread_amount", "commission_amount"}
HasFields(e, F) == F \subseteq DOMAIN e
SwapEvsOn(ev, p) == SelectSeq(ev.res.events, LAMBDA e : e.action = "swap" /\ HasFields(e, SwapFields) /\ e.contract = p)
EvsOn(ev, act, p) ==
    SelectSeq(ev.res.events, LAMBDA e : e.action = act /\ HasFields(e, {"contract"} \cup (IF act = "provide_liquidity" THEN {"share"} ELSE {}))
                                         /\ e.contract = p)

(***************************************************************************)
(* shapes of operations                                                    *)
(***************************************************************************)
IsHookSwap(ev)  == Kind(ev) \in {"cw20_send", "pair_receive"} /\ ev.op.hook.kind = "swap"
IsSwapTx(ev)    == Kind(ev) = "pair_swap" \/ IsHookSwap(ev)
SwapPair(ev)    == IF Kind(ev) = "cw20_send" THEN ev.op.contract ELSE ev.op.pair
SwapDecl(ev)    == IF Kind(ev) = "pair_swap" THEN ev.op ELSE ev.op.hook      \* record with offer, bp, ms, to
SwapFunds(ev)   == IF Kind(ev) = "cw20_send" THEN <<>> ELSE ev.op.funds
\* who is credited as the trader
SwapTrader(ev)  == IF Kind(ev) = "pair_receive" THEN ev.op.sender ELSE Caller(ev)

IsWithdrawTx(w, ev) ==
    /\ Kind(ev) = "cw20_send" /\ ev.op.hook.kind = "withdraw"
    /\ ev.op.contract \in Pairs(w)
    /\ ev.op.token = w.pair[ev.op.contract].lp
IsProvideTx(w, ev) == Kind(ev) = "pair_provide" /\ ev.op.pair \in Pairs(w)

IsRouteTx(w, ev) ==
    \/ Kind(ev) = "router_ops"
    \/ (Kind(ev) = "cw20_send" /\ ev.op.hook.kind = "router_ops" /\ ev.op.contract = w.router)
RouteDecl(ev)  == IF Kind(ev) = "router_ops" THEN ev.op ELSE ev.op.hook     \* operations, min, to
RouteOps(ev)   == RouteDecl(ev).operations
RouteRecv(ev)  == IF RouteDecl(ev).to.some THEN RouteDecl(ev).to.v ELSE Caller(ev)
\* the asset and amount handed to the router
RouteInInfo(ev) == IF Kind(ev) = "router_ops" THEN RouteOps(ev)[1].offer_info ELSE Token(ev.op.token)
RouteInAmt(ev)  == IF Kind(ev) = "router_ops" THEN FundsOf(ev.op.funds, RouteOps(ev)[1].offer_info.id) ELSE ev.op.amount
RoutePairs(w, ev) ==
    {RegEntry(w, RouteOps(ev)[i].offer_info, RouteOps(ev)[i].ask_info).pair :
        i \in {j \in DOMAIN RouteOps(ev) : RegHas(w, RouteOps(ev)[j].offer_info, RouteOps(ev)[j].ask_info)}}
RouteAssets(ev) == {RouteOps(ev)[i].offer_info : i \in DOMAIN RouteOps(ev)} \cup {RouteOps(ev)[i].ask_info : i \in DOMAIN RouteOps(ev)}

\* assert_operations: remove the offer asset, insert the ask asset, hop by hop
RECURSIVE DanglingFrom(_, _, _)
DanglingFrom(ops, i, S) ==
    IF i > Len(ops) THEN S
    ELSE DanglingFrom(ops, i + 1, (S \ {ops[i].offer_info.id}) \cup {ops[i].ask_info.id})
Dangling(ops) == DanglingFrom(ops, 1, {})

DesignatedRecv(ev) ==
    CASE IsSwapTx(ev)                -> IF SwapDecl(ev).to.some THEN SwapDecl(ev).to.v ELSE SwapTrader(ev)
      [] Kind(ev) = "pair_provide"   -> IF ev.op.receiver.some THEN ev.op.receiver.v ELSE Caller(ev)
      [] Kind(ev) = "router_ops"     -> RouteRecv(ev)
      [] Kind(ev) = "cw20_send" /\ ev.op.hook.kind = "router_ops" -> RouteRecv(ev)
      [] Kind(ev) = "router_op"      -> IF ev.op.to.some THEN ev.op.to.v ELSE Caller(ev)
      [] Kind(ev) \in {"bank_send", "cw20_transfer"} -> ev.op.dest
      [] Kind(ev) = "cw20_send"      -> IF ev.op.hook.kind = "withdraw" THEN Caller(ev) ELSE ev.op.contract
      [] OTHER                       -> Caller(ev)

(***************************************************************************)
(* C01 / C03 and the KF-1 class at system level                            *)
(***************************************************************************)
\* some swap on pair p of a successful transaction lies inside the KF-1 input class.  Several swaps
\* on one pair (cyclic routes) are replayed in order over the pair's reserves.
RECURSIVE AnySwapInKF1(_, _, _, _, _, _)
AnySwapInKF1(pre, p, evs, i, r0, r1) ==
    IF i > Len(evs) THEN FALSE
    ELSE LET e == evs[i] IN
         IF ~(HasId(pre, p, e.offer_asset) /\ HasId(pre, p, e.ask_asset) /\ e.offer_asset # e.ask_asset) THEN FALSE
         ELSE LET first == pre.pair[p].a0.id = e.offer_asset
                  x == IF first THEN r0 ELSE r1
                  y == IF first THEN r1 ELSE r0
              IN  \/ KF1Window(x, y, e.offer_amount)
                  \/ (NLe(e.return_amount, y) /\
                       AnySwapInKF1(pre, p, evs, i + 1,
                                    IF first THEN NAdd(r0, e.offer_amount) ELSE NSub(r0, e.return_amount),
                                    IF first THEN NSub(r1, e.return_amount) ELSE NAdd(r1, e.offer_amount)))

SwapClassOn(pre, ev, p) ==
    IF TxOk(ev) /\ p \in Pairs(pre) /\ Len(SwapEvsOn(ev, p)) >= 1
          /\ AnySwapInKF1(pre, p, SwapEvsOn(ev, p), 1, Res0(pre, p), Res1(pre, p))
    THEN "KF-1" ELSE ""

PairsSwapped(pre, ev) == {p \in Pairs(pre) : Len(SwapEvsOn(ev, p)) > 0}

\* A swap event names its assets by bare identifier.  On a pair whose two assets carry the same identifier string (a
\* cw20 token and a bank denom spelled like its address) that is ambiguous; for a swap sent to that pair directly or
\* through the cw20 hook the offer asset is then the one the message declares (kind included), the ask asset the
\* pair's other asset.  (Route hops over such a pair stay unresolved: the clauses that need the assets skip them.)
AliasPair(w, p) == w.pair[p].a0.id = w.pair[p].a1.id
DeclResolves(pre, ev, p) ==
    IsSwapTx(ev) /\ SwapPair(ev) = p /\ SwapDecl(ev).offer.info \in {pre.pair[p].a0, pre.pair[p].a1}
EvResolvable(pre, ev, p, e) ==
    /\ HasId(pre, p, e.offer_asset) /\ HasId(pre, p, e.ask_asset)
    /\ IF AliasPair(pre, p) THEN DeclResolves(pre, ev, p) ELSE e.offer_asset # e.ask_asset
EvOffer(pre, ev, p, e) == IF AliasPair(pre, p) THEN SwapDecl(ev).offer.info ELSE InfoById(pre, p, e.offer_asset)
EvAsk(pre, ev, p, e) ==
    IF AliasPair(pre, p) THEN (IF SwapDecl(ev).offer.info = pre.pair[p].a0 THEN pre.pair[p].a1 ELSE pre.pair[p].a0)
    ELSE InfoById(pre, p, e.ask_asset)
NoLiquidityOpOn(ev, p) == Len(EvsOn(ev, "provide_liquidity", p)) = 0 /\ Len(EvsOn(ev, "withdraw_liquidity", p)) = 0

C01_Product(pre, ev, post, p) ==
    (TxOk(ev) /\ p \in PairsSwapped(pre, ev) /\ NoLiquidityOpOn(ev, p)) =>
        NGe(NMul(Res0(post, p), Res1(post, p)), NMul(Res0(pre, p), Res1(pre, p)))
C01_Positive(pre, ev, post, p) ==
    (TxOk(ev) /\ p \in PairsSwapped(pre, ev)) =>
        \A i \in DOMAIN SwapEvsOn(ev, p) :
            LET e == SwapEvsOn(ev, p)[i] IN
            \* a reserve that was positive stays positive (nothing can be paid out of an empty one)
            (HasId(pre, p, e.ask_asset) /\ Bal(pre, InfoById(pre, p, e.ask_asset), p) # N0) =>
                Bal(post, InfoById(pre, p, e.ask_asset), p) # N0

\* r0*r1/S^2 never decreases while the supply is positive
C03_Share(pre, post, p) ==
    (p \in Pairs(pre) /\ p \in Pairs(post) /\ LpSupply(pre, p) # N0 /\ LpSupply(post, p) # N0) =>
        \/ (Res0(pre, p) = Res0(post, p) /\ Res1(pre, p) = Res1(post, p) /\ LpSupply(pre, p) = LpSupply(post, p))
        \/ NGe(M3(Res0(post, p), Res1(post, p), NSq(LpSupply(pre, p))),
               M3(Res0(pre, p), Res1(pre, p), NSq(LpSupply(post, p))))

(***************************************************************************)
(* C02  settlement moves exactly the declared asset and amounts            *)
(***************************************************************************)
\* ask-asset coins attached to a direct swap (they reach the pair before pricing)
AttachedAsk(ev, A) == IF Kind(ev) = "pair_swap" /\ A.native THEN FundsOf(ev.op.funds, A.id) ELSE N0

C02_Applies(pre, ev) == TxOk(ev) /\ IsSwapTx(ev) /\ SwapPair(ev) \in Pairs(pre) /\ Len(SwapEvsOn(ev, SwapPair(ev))) = 1
C02_Settle(pre, ev, post) ==
    C02_Applies(pre, ev) =>
        LET p == SwapPair(ev)
            e == SwapEvsOn(ev, p)[1]
        IN  /\ EvResolvable(pre, ev, p, e)
            /\ LET O == EvOffer(pre, ev, p, e)
                   A == EvAsk(pre, ev, p, e)
                   trader == SwapTrader(ev)
                   recv == e.receiver
                   \* coins of the ask asset attached on top of the offer are one more declared movement
                   extra == AttachedAsk(ev, A)
                   In(X, Y)  == NAdd(NAdd(IF Y = O /\ X = p THEN e.offer_amount ELSE N0,
                                          IF Y = A /\ X = recv THEN e.return_amount ELSE N0),
                                     IF Y = A /\ X = p THEN extra ELSE N0)
                   Out(X, Y) == NAdd(NAdd(IF Y = O /\ X = trader THEN e.offer_amount ELSE N0,
                                          IF Y = A /\ X = p THEN e.return_amount ELSE N0),
                                     IF Y = A /\ X = trader THEN extra ELSE N0)
               IN  /\ recv = DesignatedRecv(ev)
                   /\ \A X \in {trader, p, recv} : \A Y \in {O, A} :
                          NAdd(Bal(pre, Y, X), In(X, Y)) = NAdd(Bal(post, Y, X), Out(X, Y))

\* ... and, whatever the response reports: a successful swap sent to a pair (directly or through the cw20 hook) that
\* names one of the pair's assets as its offer raises the pair's balance of that asset by exactly the named amount
C02_Declared(pre, ev, post) ==
    (TxOk(ev) /\ IsSwapTx(ev) /\ SwapPair(ev) \in Pairs(pre) /\ SwapTrader(ev) # SwapPair(ev)
        /\ SwapDecl(ev).offer.info \in {pre.pair[SwapPair(ev)].a0, pre.pair[SwapPair(ev)].a1}) =>
        LET p == SwapPair(ev)  O == SwapDecl(ev).offer.info IN
        Bal(post, O, p) = NAdd(Bal(pre, O, p), SwapDecl(ev).offer.amount)

(***************************************************************************)
(* C04  withdrawal pays the pro-rata share                                 *)
(***************************************************************************)
C04_Applies(pre, ev) == TxOk(ev) /\ IsWithdrawTx(pre, ev)
C04_Withdraw(pre, ev, post) ==
    C04_Applies(pre, ev) =>
        LET p == ev.op.contract   a == ev.op.amount   holder == Caller(ev)
            lp == Token(pre.pair[p].lp)   S == LpSupply(pre, p)
        IN  /\ \A i \in {0, 1} :
                  LET r == ResAt(pre, p, i)  r2 == ResAt(post, p, i) IN
                  /\ NLe(r2, r)
                  /\ C04_Refund(r, a, S, [ok |-> TRUE, v |-> NSub(r, r2)])
                  /\ (holder # p => Bal(post, InfoAt(pre, p, i), holder) = NAdd(Bal(pre, InfoAt(pre, p, i), holder), NSub(r, r2)))
            /\ NLe(a, S) /\ LpSupply(post, p) = NSub(S, a)
            /\ NAdd(Bal(post, lp, holder), a) = Bal(pre, lp, holder)
            /\ \A x \in Accts(pre) \ {holder} : Bal(post, lp, x) = Bal(pre, lp, x)

(***************************************************************************)
(* C05  provision mints a fair share and pulls exactly the deposits        *)
(***************************************************************************)
DeclaredAmt(assets, info) ==
    IF assets[1].info = info THEN assets[1].amount ELSE assets[2].amount
Declares(assets, info) == assets[1].info = info \/ assets[2].info = info

C05_Applies(pre, ev) == TxOk(ev) /\ IsProvideTx(pre, ev)
C05_Provide(pre, ev, post) ==
    C05_Applies(pre, ev) =>
        LET p == ev.op.pair   c == Caller(ev)   recv == DesignatedRecv(ev)
            lpa == pre.pair[p].lp   lp == Token(lpa)
            S == LpSupply(pre, p)   S2 == LpSupply(post, p)
        IN  /\ Declares(ev.op.assets, pre.pair[p].a0) /\ Declares(ev.op.assets, pre.pair[p].a1)
            /\ LET d0 == DeclaredAmt(ev.op.assets, pre.pair[p].a0)
                   d1 == DeclaredAmt(ev.op.assets, pre.pair[p].a1)
               IN  /\ NLt(S, S2)                                     \* m >= 1
                   \* exact pulls
                   /\ (c # p => /\ Res0(post, p) = NAdd(Res0(pre, p), d0) /\ Res1(post, p) = NAdd(Res1(pre, p), d1)
                                /\ NAdd(Bal(post, pre.pair[p].a0, c), d0) = Bal(pre, pre.pair[p].a0, c)
                                /\ NAdd(Bal(post, pre.pair[p].a1, c), d1) = Bal(pre, pre.pair[p].a1, c))
                   /\ IF S # N0
                      THEN LET m == NSub(S2, S) IN
                           /\ C05_Share(S, d0, d1, Res0(pre, p), Res1(pre, p), [ok |-> TRUE, v |-> m])
                           /\ Bal(post, lp, recv) = NAdd(Bal(pre, lp, recv), m)
                           /\ (recv # lpa => Bal(post, lp, lpa) = Bal(pre, lp, lpa))
                      ELSE /\ C05_First(d0, d1, c \in pre.pair[p].wl, pre.pair[p].m0, pre.pair[p].m1, [ok |-> TRUE, v |-> S2])
                           /\ IF recv = lpa THEN Bal(post, lp, lpa) = S2
                              ELSE /\ Bal(post, lp, lpa) = NAdd(Bal(pre, lp, lpa), N1)
                                   /\ NAdd(Bal(post, lp, recv), N1) = NAdd(Bal(pre, lp, recv), S2)

(***************************************************************************)
(* C06  reported swap amounts are the constant-product price               *)
(***************************************************************************)
C06_Applies(pre, ev, p) == TxOk(ev) /\ p \in Pairs(pre) /\ Len(SwapEvsOn(ev, p)) = 1
C06_Swap(pre, ev, p) ==
    C06_Applies(pre, ev, p) =>
        LET e == SwapEvsOn(ev, p)[1] IN
        EvResolvable(pre, ev, p, e) =>
            LET x == Bal(pre, EvOffer(pre, ev, p, e), p)
                y == NAdd(Bal(pre, EvAsk(pre, ev, p, e), p),
                          IF IsSwapTx(ev) /\ SwapPair(ev) = p THEN AttachedAsk(ev, EvAsk(pre, ev, p, e)) ELSE N0)
                r == [ok |-> TRUE, ret |-> e.return_amount, spread |-> e.spread_amount, comm |-> e.commission_amount]
                c == pre.pair[p].commission
            IN  /\ C06_Price(x, y, e.offer_amount, c, r)
                /\ C06_Commission(c, r)
                /\ C06_Spread(x, y, e.offer_amount, r)

\* a Simulation answer in world w
C06_Sim(w, q, ans) ==
    (ans.ok /\ q.pair \in Pairs(w) /\ PosIn(w, q.pair, q.offer.info) >= 0) =>
        LET p == q.pair   i == PosIn(w, p, q.offer.info)
            x == ResAt(w, p, i)   y == ResAt(w, p, 1 - i)
            r == [ok |-> TRUE, ret |-> ans.ret, spread |-> ans.spread, comm |-> ans.comm]
            c == w.pair[p].commission
        IN  /\ C06_Price(x, y, q.offer.amount, c, r)
            /\ C06_Commission(c, r)
            /\ C06_Spread(x, y, q.offer.amount, r)

(***************************************************************************)
(* C07  no third-party effects, totals conserved                           *)
(***************************************************************************)
AddressedContracts(pre, ev) ==
    LET k == Kind(ev) IN
    (IF "pair" \in DOMAIN ev.op THEN {ev.op.pair} ELSE {})
    \cup (IF "contract" \in DOMAIN ev.op THEN {ev.op.contract} ELSE {})
    \cup (IF k \in {"router_ops", "router_op", "router_assert_min", "router_receive"} THEN {pre.router} ELSE {})
    \cup (IF IsRouteTx(pre, ev) THEN RoutePairs(pre, ev) \cup {pre.router} ELSE {})
    \cup (IF k = "router_op" /\ RegHas(pre, ev.op.operation.offer_info, ev.op.operation.ask_info)
          THEN {RegEntry(pre, ev.op.operation.offer_info, ev.op.operation.ask_info).pair} ELSE {})

Involved(pre, ev) ==
    LET cs == AddressedContracts(pre, ev) IN
    {Caller(ev), DesignatedRecv(ev)} \cup cs \cup {pre.pair[p].lp : p \in cs \cap Pairs(pre)}

C07_ThirdParty(pre, ev, post) ==
    \A info \in AllAssets(post) : \A a \in Accts(post) \ Involved(pre, ev) : Bal(post, info, a) = Bal(pre, info, a)

C07_ReceiverGains(pre, ev, post) ==
    LET r == DesignatedRecv(ev) IN
    (r # Caller(ev) /\ r \notin AddressedContracts(pre, ev)) =>
        \A info \in AllAssets(post) : NGe(Bal(post, info, r), Bal(pre, info, r))

\* A holder destroying its own cw20 tokens (cw20 Burn sent to the token by the holder) is the one operation of the
\* environment that changes a supply without the AMM: it is named here, not forbidden (the contracts cannot prevent
\* it); what the AMM guarantees across it is everything else (C01, C03, C04, C20 on the states it leads to)
IsHolderBurn(ev) == Kind(ev) = "cw20_burn" /\ TxOk(ev)
BurnedOf(ev, t) == IF IsHolderBurn(ev) /\ ev.op.token = t THEN ev.op.amount ELSE N0

C07_Conserved(pre, ev, post) ==
    /\ \A d \in Denoms(pre) : Total(post, Native(d)) = Total(pre, Native(d))
    /\ \A t \in Tokens(pre) \ LpTokens(pre) : NAdd(Supply(post, t), BurnedOf(ev, t)) = Supply(pre, t) /\ Total(post, Token(t)) = Supply(post, t)
    /\ \A t \in LpTokens(post) : Total(post, Token(t)) = Supply(post, t)

C07_LpSupply(pre, ev, post) ==
    \A p \in Pairs(pre) :
        LET S == LpSupply(pre, p)  S2 == LpSupply(post, p) IN
        IF TxOk(ev) /\ IsProvideTx(pre, ev) /\ ev.op.pair = p
        THEN LET pe == EvsOn(ev, "provide_liquidity", p) IN
             Len(pe) = 1 /\ S2 = NAdd(NAdd(S, pe[1].share), IF S = N0 THEN N1 ELSE N0)
        ELSE IF TxOk(ev) /\ IsWithdrawTx(pre, ev) /\ ev.op.contract = p
        THEN NAdd(S2, ev.op.amount) = S
        ELSE NAdd(S2, BurnedOf(ev, pre.pair[p].lp)) = S

C07_Allowances(pre, ev, post) ==
    \A t \in Tokens(pre) : \A x \in pre.tok[t].allow :
        x[1] # Caller(ev) => x \in post.tok[t].allow

C07_FailedUnchanged(pre, ev, post) == ~TxOk(ev) => SameWorld(pre, post)

(***************************************************************************)
(* C09  declared native amounts equal the attached funds                   *)
(***************************************************************************)
C09_Applies(ev) == Kind(ev) \in {"pair_provide", "pair_swap"} \/ IsHookSwap(ev)
C09_Funds(pre, ev, post) ==
    C09_Applies(ev) =>
        LET decl == IF Kind(ev) = "pair_provide" THEN {ev.op.assets[1], ev.op.assets[2]} ELSE {SwapDecl(ev).offer}
            funds == IF Kind(ev) = "cw20_send" THEN <<>> ELSE ev.op.funds
        IN  /\ TxOk(ev) => \A a \in decl : a.info.native => FundsOf(funds, a.info.id) = a.amount
            /\ ~TxOk(ev) => SameWorld(pre, post)

\* the pool never credits native value that was not attached: on a funded pair the shares minted by a provision are
\* justified, for each native asset of the pair, by the coins of that denom actually attached (m * r_i <= funds_i * S),
\* whatever the message declares and however it spells the asset
C09_Credit(pre, ev, post) ==
    (TxOk(ev) /\ IsProvideTx(pre, ev) /\ LpSupply(pre, ev.op.pair) # N0 /\ Caller(ev) # ev.op.pair) =>
        LET p == ev.op.pair   S == LpSupply(pre, p)   m == NMonus(LpSupply(post, p), S) IN
        \A i \in {0, 1} :
            InfoAt(pre, p, i).native =>
                NLe(NMul(m, ResAt(pre, p, i)), NMul(FundsOf(ev.op.funds, InfoAt(pre, p, i).id), S))

(***************************************************************************)
(* C10  max_spread / belief_price at system level                          *)
(***************************************************************************)
\* "decimals-normalised": by the decimals the assets really have - the registered decimals of a native denom, the cw20
\* contract's own decimals - not by whatever copy the pair holds (the two agree as long as C17 holds)
GuardDec(w, p, i) ==
    LET info == InfoAt(w, p, i) IN
    IF info.native THEN (IF info.id \in DOMAIN w.fac.native THEN w.fac.native[info.id] ELSE DecAt(w, p, i))
    ELSE (IF info.id \in Tokens(w) THEN w.tok[info.id].decimals ELSE DecAt(w, p, i))

C10_Applies(pre, ev) == C02_Applies(pre, ev) /\ SwapDecl(ev).ms.some
C10_Swap(pre, ev) ==
    C10_Applies(pre, ev) =>
        LET p == SwapPair(ev)   e == SwapEvsOn(ev, p)[1] IN
        EvResolvable(pre, ev, p, e) =>
            LET oi == PosIn(pre, p, EvOffer(pre, ev, p, e)) IN
            C10_Guard(SwapDecl(ev).bp, SwapDecl(ev).ms, e.offer_amount, e.return_amount, e.spread_amount,
                      GuardDec(pre, p, oi), GuardDec(pre, p, 1 - oi), OkRes)

\* a swap rejected by the guard, judged on the quote taken in the same state
C10_Rejected(pre, ev, q, ans) ==
    (~TxOk(ev) /\ ev.res.why = "err:Max spread assertion" /\ IsSwapTx(ev) /\ ans.ok
        /\ SwapPair(ev) = q.pair /\ SwapDecl(ev).offer = q.offer /\ q.pair \in Pairs(pre)
        /\ PosIn(pre, q.pair, q.offer.info) >= 0) =>
        LET p == q.pair  oi == PosIn(pre, p, q.offer.info) IN
        C10_Guard(SwapDecl(ev).bp, SwapDecl(ev).ms, q.offer.amount, ans.ret, ans.spread,
                  GuardDec(pre, p, oi), GuardDec(pre, p, 1 - oi), Rej("err:Max spread assertion"))

(***************************************************************************)
(* C11  router delivers at least minimum_receive or reverts                *)
(***************************************************************************)
RoutePaidByRecv(ev, final) ==
    IF RouteRecv(ev) # Caller(ev) THEN N0
    ELSE IF Kind(ev) = "router_ops" THEN (IF final.native THEN FundsOf(ev.op.funds, final.id) ELSE N0)
    ELSE IF Token(ev.op.token) = final THEN ev.op.amount ELSE N0

C11_Applies(pre, ev) == IsRouteTx(pre, ev) /\ Len(RouteOps(ev)) > 0
C11_Minimum(pre, ev, post) ==
    C11_Applies(pre, ev) =>
        LET final == RouteOps(ev)[Len(RouteOps(ev))].ask_info   r == RouteRecv(ev) IN
        /\ (TxOk(ev) /\ RouteDecl(ev).min.some) =>
               NGe(NAdd(Bal(post, final, r), RoutePaidByRecv(ev, final)), NAdd(Bal(pre, final, r), RouteDecl(ev).min.v))
        /\ ~TxOk(ev) => SameWorld(pre, post)

(***************************************************************************)
(* C13  router is a pure pass-through                                      *)
(***************************************************************************)
DistinctPairs(pre, ev) ==
    /\ \A i \in DOMAIN RouteOps(ev) : RegHas(pre, RouteOps(ev)[i].offer_info, RouteOps(ev)[i].ask_info)
    /\ Cardinality(RoutePairs(pre, ev)) = Len(RouteOps(ev))
RouterEmpty(pre, ev) == \A info \in RouteAssets(ev) : Bal(pre, info, pre.router) = N0

C13_Applies(pre, ev) == TxOk(ev) /\ IsRouteTx(pre, ev) /\ Len(RouteOps(ev)) > 0 /\ DistinctPairs(pre, ev) /\ RouterEmpty(pre, ev)
C13_PassThrough(pre, ev, post) ==
    C13_Applies(pre, ev) =>
        LET final == RouteOps(ev)[Len(RouteOps(ev))].ask_info
            r == RouteRecv(ev)   c == Caller(ev)   inI == RouteInInfo(ev)
        IN  \* nothing of the route stays in the router (unless the router itself is the named recipient of the final asset)
            /\ \A info \in RouteAssets(ev) \ (IF r = post.router THEN {final} ELSE {}) : Bal(post, info, post.router) = N0
            /\ (r # c /\ r \notin AddressedContracts(pre, ev)) =>
                   \A info \in AllAssets(post) \ {final} : Bal(post, info, r) = Bal(pre, info, r)
            /\ (inI # final /\ c \notin AddressedContracts(pre, ev)) =>
                   NAdd(Bal(post, inI, c), RouteInAmt(ev)) = Bal(pre, inI, c)
C13_Shape(pre, ev) ==
    IsRouteTx(pre, ev) =>
        /\ Len(RouteOps(ev)) = 0 => ~TxOk(ev)
        /\ (Len(RouteOps(ev)) > 0 /\ Cardinality(Dangling(RouteOps(ev))) # 1) => ~TxOk(ev)
\* delivered = quoted (quote taken in the same state for the same input)
C13_Quoted(pre, ev, post, amount) ==
    (C13_Applies(pre, ev)) =>
        LET final == RouteOps(ev)[Len(RouteOps(ev))].ask_info  r == RouteRecv(ev) IN
        (r \notin AddressedContracts(pre, ev) /\ (r # Caller(ev) \/ RouteInInfo(ev) # final)) =>
            Bal(post, final, r) = NAdd(Bal(pre, final, r), amount)

(***************************************************************************)
(* C14  privileged and internal entry points                               *)
(***************************************************************************)
FacOps == {"fac_update_config", "fac_create_pair", "fac_add_native", "fac_migrate_pair"}
C14_Applies(ev) == Kind(ev) \in FacOps \cup {"pair_update_decimals", "pair_receive", "router_op", "router_assert_min"}
C14_Auth(pre, ev, post) ==
    /\ (TxOk(ev) /\ Kind(ev) \in FacOps) => Caller(ev) = pre.fac.owner
    /\ (TxOk(ev) /\ Kind(ev) = "pair_update_decimals") => Caller(ev) = pre.fac.addr
    /\ (TxOk(ev) /\ Kind(ev) = "pair_receive" /\ ev.op.pair \in Pairs(pre)) =>
           IF ev.op.hook.kind = "withdraw" THEN Caller(ev) = pre.pair[ev.op.pair].lp
           ELSE IF ev.op.hook.kind = "swap"
                THEN \E i \in {0, 1} : ~InfoAt(pre, ev.op.pair, i).native /\ InfoAt(pre, ev.op.pair, i).id = Caller(ev)
                ELSE FALSE
    /\ (TxOk(ev) /\ Kind(ev) \in {"router_op", "router_assert_min"}) => Caller(ev) = pre.router
    /\ IF TxOk(ev) /\ Kind(ev) = "fac_update_config" /\ ev.op.new_owner.some
       THEN post.fac.owner = ev.op.new_owner.v
       ELSE post.fac.owner = pre.fac.owner
    /\ (C14_Applies(ev) /\ ~TxOk(ev)) => SameWorld(pre, post)

(***************************************************************************)
(* C15  slippage tolerance at system level                                 *)
(***************************************************************************)
C15_Applies(pre, ev) == IsProvideTx(pre, ev) /\ ev.op.tol.some
                        /\ Declares(ev.op.assets, pre.pair[ev.op.pair].a0) /\ Declares(ev.op.assets, pre.pair[ev.op.pair].a1)
                        /\ (TxOk(ev) \/ ev.res.why = "err:Max slippage assertion")
C15_Provide(pre, ev) ==
    C15_Applies(pre, ev) =>
        LET p == ev.op.pair IN
        C15_Guard(ev.op.tol, DeclaredAmt(ev.op.assets, pre.pair[p].a0), DeclaredAmt(ev.op.assets, pre.pair[p].a1),
                  Res0(pre, p), Res1(pre, p),
                  IF TxOk(ev) THEN OkRes ELSE Rej("err:Max slippage assertion"))

(***************************************************************************)
(* C16 / C17  registry consistency                                         *)
(***************************************************************************)
EntryMatchesPair(w, e) ==
    /\ e.pair \in Pairs(w)
    /\ LET p == w.pair[e.pair] IN
       /\ e.a0 = p.a0 /\ e.a1 = p.a1 /\ e.lp = p.lp /\ p.self_lp = p.lp
       /\ e.commission = p.commission /\ e.wl = p.wl /\ e.m0 = p.m0 /\ e.m1 = p.m1
EntryDecimalsMatch(w, e) ==
    e.pair \in Pairs(w) => (e.d0 = w.pair[e.pair].d0 /\ e.d1 = w.pair[e.pair].d1)

C16_RegistryInv(w) ==
    /\ \A i \in DOMAIN w.fac.reg : EntryMatchesPair(w, w.fac.reg[i])
    /\ \A i, j \in DOMAIN w.fac.reg :
          i # j => /\ w.fac.reg[i].pair # w.fac.reg[j].pair
                   /\ ~SameSet(w.fac.reg[i], w.fac.reg[j].a0, w.fac.reg[j].a1)
C17_DecimalsInv(w) == \A i \in DOMAIN w.fac.reg : EntryDecimalsMatch(w, w.fac.reg[i])

TrueDecimals(w, info) == IF info.native THEN w.fac.native[info.id] ELSE w.tok[info.id].decimals
Creatable(w, info) == IF info.native THEN info.id \in DOMAIN w.fac.native ELSE info.id \in Tokens(w)

C16_Create(pre, ev, post) ==
    Kind(ev) = "fac_create_pair" =>
        LET x == ev.op.infos[1]  y == ev.op.infos[2] IN
        /\ TxOk(ev) => /\ x # y /\ ~RegHas(pre, x, y)
                     /\ Creatable(pre, x) /\ Creatable(pre, y)
                     /\ Len(post.fac.reg) = Len(pre.fac.reg) + 1
                     /\ RegHas(post, x, y)
                     /\ LET e == RegEntry(post, x, y) IN
                        /\ e.a0 = x /\ e.a1 = y
                        /\ e.d0 = TrueDecimals(pre, x) /\ e.d1 = TrueDecimals(pre, y)
                        /\ e.pair \notin Pairs(pre)
        /\ (x = y \/ RegHas(pre, x, y)) => ~TxOk(ev)

\* what the creator asked for is what is recorded and what the pair charges: an explicit commission rate (any value
\* in [0,1], zero included), the whitelist and the first-deposit minimums
C16_Requested(pre, ev, post) ==
    (Kind(ev) = "fac_create_pair" /\ TxOk(ev) /\ RegHas(post, ev.op.infos[1], ev.op.infos[2])) =>
        LET e == RegEntry(post, ev.op.infos[1], ev.op.infos[2]) IN
        /\ ev.op.commission.some =>
              /\ e.commission = ev.op.commission.v
              /\ e.pair \in Pairs(post) => post.pair[e.pair].commission = ev.op.commission.v
        /\ e.wl = Range(ev.op.whitelist) /\ e.m0 = ev.op.min0 /\ e.m1 = ev.op.min1
C06_ConfiguredRate(pre, ev, post) ==
    (Kind(ev) = "fac_create_pair" /\ TxOk(ev) /\ ev.op.commission.some /\ RegHas(post, ev.op.infos[1], ev.op.infos[2])) =>
        LET e == RegEntry(post, ev.op.infos[1], ev.op.infos[2]) IN
        e.pair \in Pairs(post) => post.pair[e.pair].commission = ev.op.commission.v

\* the first-provision gate of a created pair (whitelist, both minimums, each in its own position) is the one asked for
C05_ConfiguredGate(pre, ev, post) ==
    (Kind(ev) = "fac_create_pair" /\ TxOk(ev) /\ RegHas(post, ev.op.infos[1], ev.op.infos[2])) =>
        LET e == RegEntry(post, ev.op.infos[1], ev.op.infos[2]) IN
        e.pair \in Pairs(post) =>
            /\ post.pair[e.pair].wl = Range(ev.op.whitelist)
            /\ post.pair[e.pair].m0 = ev.op.min0 /\ post.pair[e.pair].m1 = ev.op.min1

RecMatches(w, rec, e) ==
    /\ rec.pair = e.pair /\ rec.a0 = e.a0 /\ rec.a1 = e.a1 /\ rec.lp = e.lp
    /\ rec.d0 = e.d0 /\ rec.d1 = e.d1 /\ rec.commission = e.commission
    /\ Range(rec.wl) = e.wl /\ rec.m0 = e.m0 /\ rec.m1 = e.m1
    /\ EntryMatchesPair(w, e) /\ EntryDecimalsMatch(w, e)

\* lookup with the two assets in the given order
C16_Lookup(w, q, ans) ==
    LET x == q.infos[1]  y == q.infos[2] IN
    /\ ans.ok => /\ RegHas(w, x, y)                       \* never resolves an unregistered set
                 /\ SameSet(ans.rec, x, y)
                 /\ RegHas(w, x, y) => RecMatches(w, ans.rec, RegEntry(w, x, y))
    /\ RegHas(w, x, y) => ans.ok

\* no operation removes a registered pair from the registry (and so from the listing): the registry only grows
C19_Monotone(pre, post) ==
    \A i \in DOMAIN pre.fac.reg : \E j \in DOMAIN post.fac.reg : post.fac.reg[j].pair = pre.fac.reg[i].pair

C17_Update(pre, ev, post) ==
    (TxOk(ev) /\ Kind(ev) = "fac_add_native") =>
        LET d == ev.op.denom  v == ev.op.decimals IN
        /\ d \in DOMAIN post.fac.native /\ post.fac.native[d] = v
        /\ \A x \in DOMAIN pre.fac.native \ {d} : x \in DOMAIN post.fac.native /\ post.fac.native[x] = pre.fac.native[x]
        /\ Len(post.fac.reg) = Len(pre.fac.reg)
        /\ \A i \in DOMAIN post.fac.reg :
              LET e == post.fac.reg[i]  o == pre.fac.reg[i] IN
              /\ e.d0 = (IF e.a0 = Native(d) THEN v ELSE o.d0)
              /\ e.d1 = (IF e.a1 = Native(d) THEN v ELSE o.d1)
              /\ e.pair \in Pairs(post) =>
                    /\ post.pair[e.pair].d0 = (IF e.a0 = Native(d) THEN v ELSE pre.pair[e.pair].d0)
                    /\ post.pair[e.pair].d1 = (IF e.a1 = Native(d) THEN v ELSE pre.pair[e.pair].d1)

(***************************************************************************)
(* C19  pagination                                                         *)
(***************************************************************************)
RECURSIVE Flatten(_, _)
Flatten(pages, i) == IF i > Len(pages) THEN <<>> ELSE pages[i] \o Flatten(pages, i + 1)

C19_Walk(w, q, ans, DefaultLimit, MaxLimit) ==
    ans.ok =>
        LET all == Flatten(ans.pages, 1)
            lim == IF q.limit.some THEN (IF q.limit.v < MaxLimit THEN q.limit.v ELSE MaxLimit) ELSE DefaultLimit
        IN  /\ ans.ended
            /\ \A i, j \in DOMAIN all : i # j => all[i].pair # all[j].pair           \* no duplicates
            /\ {all[i].pair : i \in DOMAIN all} = RegPairs(w)                         \* complete
            /\ \A i \in DOMAIN ans.pages : Len(ans.pages[i]) <= lim /\ Len(ans.pages[i]) <= MaxLimit
            /\ \A i \in DOMAIN ans.pages : i < Len(ans.pages) => Len(ans.pages[i]) = lim

(***************************************************************************)
(* C20  liquidity can always be withdrawn                                  *)
(***************************************************************************)
C20_Qualifies(pre, ev) ==
    /\ IsWithdrawTx(pre, ev)
    /\ LET p == ev.op.contract  a == ev.op.amount  S == LpSupply(pre, p) IN
       /\ a # N0 /\ S # N0
       /\ NLe(a, Bal(pre, Token(pre.pair[p].lp), Caller(ev)))
       /\ \A i \in {0, 1} :
             LET r == ResAt(pre, p, i) IN
             NGe(M3(r, a, DFRAC), NMul(S, NAdd(r, NMul(N2, DFRAC))))
C20_Withdrawable(pre, ev) == C20_Qualifies(pre, ev) => TxOk(ev)
=============================================================================

------------------------------ MODULE Trace_World ------------------------------
(***************************************************************************)
(* Trace validation, system level.  The NDJSON file named by TRACE holds   *)
(* behaviours of the real factory / pair / router contracts (and           *)
(* cw20-base tokens) executed in cw-multi-test by /verif/harness:          *)
(*   reset  a new behaviour: the full projected world                      *)
(*   tx     one transaction: operation, outcome with its wasm events, and  *)
(*          the full projected world after it                              *)
(*   q      one query (or one complete page walk) with its answer          *)
(* TLC consumes one event per step; `obs` is the observed world.  Every    *)
(* clause of PropsWorld is evaluated on every step it applies to, over the *)
(* BigNat number domain with the production constants.  Findings are       *)
(* printed (VIOL ...) and validation continues.                            *)
(***************************************************************************)
EXTENDS Machine, NumBig, Json, IOUtils

Rec == ndJsonDeserialize(IOEnv.TRACE)

\* registry-key bytes of every identifier, as recorded by the harness at the start of each behaviour
\* (denom bytes; MockApi canonical bytes of account / contract addresses, also of contracts yet to be created)
ResetIdx == {i \in DOMAIN Rec : Rec[i].k = "reset" /\ "bytes" \in DOMAIN Rec[i]}
BytesMap == [id \in UNION {DOMAIN Rec[i].bytes : i \in ResetIdx} |->
                Rec[CHOOSE i \in ResetIdx : id \in DOMAIN Rec[i].bytes].bytes[id]]
\* a bank denom may be spelled like a contract address: denoms are looked up under "n:<denom>"
TraceKeyBytes(x) ==
    LET k == IF x.native THEN "n:" \o x.id ELSE x.id IN
    IF k \in DOMAIN BytesMap THEN BytesMap[k] ELSE <<>>
TraceAddrOfIndex(n) == "contract" \o ToString(n)

PIDS == {"C01", "C02", "C03", "C04", "C05", "C06", "C07", "C09", "C10", "C11", "C12", "C13", "C14",
         "C15", "C16", "C17", "C19", "C20"}

DefaultLimit == 10
MaxLimit == 30

VARIABLES l, obs, lastq, app
vars == <<l, obs, lastq, app>>

NoQ == [kind |-> "none"]

Rep(tag, prop, clause, known) == PrintT(<<tag, prop, clause, l, known, Rec[l].h>>)
\* IF, not \/ : TLC would split a disjunction inside an action into alternative successors
Chk(cond, prop, clause, known) == IF cond THEN TRUE ELSE Rep("VIOL", prop, clause, known)

\* diagnostic: the observed step differs from the reference machine's step (never an alarm)
Dev(cond, what) == IF cond THEN TRUE ELSE Rep("DEV", "-", what, "")

SpecificWhy == {"err:Unauthorized", "err:Asset mismatch", "err:Max spread assertion", "err:Max slippage assertion",
                "err:Native token balance mismatch", "err:Invalid zero amount", "err:minimum receive",
                "err:must provide operations", "err:multiple output token", "err:Pair already exists", "err:same asset",
                "err:commission rate", "err:asset invalid", "err:factory balance", "panic"}

SameObserved(mw, post) ==
    IF post.light THEN mw.fac = post.fac /\ mw.pair = post.pair
    ELSE mw = post

RefTx(pre, e, post) ==
    LET m == Tx(pre, e.op) IN
    /\ Dev(m.res.ok = e.res.ok, "tx-outcome")
    /\ Dev((m.res.ok /\ e.res.ok) => SameObserved(m.w, post), "tx-world")
    /\ Dev((m.res.ok /\ e.res.ok) =>
               LET ms == SelectSeq(m.res.events, LAMBDA x : x.action = "swap")
                   os == SelectSeq(e.res.events, LAMBDA x : x.action = "swap")
               IN  /\ Len(ms) = Len(os)
                   /\ \A i \in DOMAIN os : HasFields(os[i], SwapFields)
                   /\ \A i \in DOMAIN ms :
                          /\ ms[i].contract = os[i].contract /\ ms[i].receiver = os[i].receiver
                          /\ ms[i].offer_asset = os[i].offer_asset /\ ms[i].ask_asset = os[i].ask_asset
                          /\ ms[i].offer_amount = os[i].offer_amount /\ ms[i].return_amount = os[i].return_amount
                          /\ ms[i].spread_amount = os[i].spread_amount /\ ms[i].commission_amount = os[i].commission_amount,
           "tx-swap-events")
    /\ Dev((~m.res.ok /\ ~e.res.ok /\ m.res.why \in SpecificWhy /\ e.res.why \in SpecificWhy) => m.res.why = e.res.why, "tx-why")

PageOf(seq) == [i \in DOMAIN seq |-> seq[i].pair]
RECURSIVE WalkFrom(_, _, _, _)
WalkFrom(w, start, limit, fuel) ==
    LET page == QPairs(w, start, limit, DefaultLimit, MaxLimit) IN
    IF page = <<>> \/ fuel = 0 THEN <<>>
    ELSE <<PageOf(page)>> \o WalkFrom(w, Some(<<page[Len(page)].a0, page[Len(page)].a1>>), limit, fuel - 1)

RefQ(w, q, ans) ==
    CASE q.op = "q_simulation" ->
            LET m == QSimulation(w, q.pair, q.offer) IN
            Dev(m.ok = ans.ok /\ (m.ok => m.ret = ans.ret /\ m.spread = ans.spread /\ m.comm = ans.comm), "q-simulation")
      [] q.op = "q_reverse" ->
            LET m == QReverse(w, q.pair, q.ask) IN
            Dev(m.ok = ans.ok /\ (m.ok => m.offer = ans.offer /\ m.spread = ans.spread /\ m.comm = ans.comm), "q-reverse")
      [] q.op = "q_router_sim" ->
            LET m == QRouterSim(w, q.operations, q.amount) IN
            Dev(m.ok = ans.ok /\ (m.ok => m.amount = ans.amount), "q-router-sim")
      [] q.op = "q_fac_walk" ->
            Dev(ans.ok => [i \in DOMAIN ans.pages |-> PageOf(ans.pages[i])] = WalkFrom(w, None, q.limit, 200), "q-fac-walk")
      [] q.op = "q_pool" ->
            \* the pair's Pool query reports its two actual reserves (in its own asset order) and the LP supply
            Dev(q.pair \in Pairs(w) =>
                   /\ ans.ok
                   /\ ans.i0 = w.pair[q.pair].a0 /\ ans.i1 = w.pair[q.pair].a1
                   /\ ans.r0 = Res0(w, q.pair) /\ ans.r1 = Res1(w, q.pair)
                   /\ ans.share = LpSupply(w, q.pair), "q-pool")
      [] q.op = "q_fac_config" ->
            Dev(ans.ok /\ ans.owner = w.fac.owner /\ ans.pair_code = w.fac.pair_code /\ ans.token_code = w.fac.token_code, "q-fac-config")
      [] q.op = "q_router_rev" ->
            LET m == QRouterRev(w, q.operations, q.amount) IN
            Dev(m.ok = ans.ok /\ (m.ok => m.amount = ans.amount), "q-router-rev")
      [] OTHER -> TRUE

\* class of a C01/C03 violation on pair p: inside the KF-1 input class or fresh
Cls(pre, ev, p) == SwapClassOn(pre, ev, p)

TxChecks(pre, ev, post) ==
    /\ \A p \in Pairs(pre) :
          /\ Chk(C01_Product(pre, ev, post, p), "C01", "product", Cls(pre, ev, p))
          /\ Chk(C01_Positive(pre, ev, post, p), "C01", "positive", Cls(pre, ev, p))
          /\ Chk(C03_Share(pre, post, p), "C03", "share-value", Cls(pre, ev, p))
          /\ Chk(C06_Swap(pre, ev, p), "C06", "swap-attrs", "")
    /\ Chk(C02_Settle(pre, ev, post), "C02", "settle", "")
    /\ Chk(C02_Declared(pre, ev, post), "C02", "declared", "")
    /\ Chk(C04_Withdraw(pre, ev, post), "C04", "withdraw", "")
    /\ Chk(C05_Provide(pre, ev, post), "C05", "provide", "")
    /\ Chk(C07_ThirdParty(pre, ev, post), "C07", "third-party", "")
    /\ Chk(C07_ReceiverGains(pre, ev, post), "C07", "receiver-gains", "")
    /\ Chk(C07_Conserved(pre, ev, post), "C07", "conserved", "")
    /\ Chk(C07_LpSupply(pre, ev, post), "C07", "lp-supply", "")
    /\ Chk(C07_Allowances(pre, ev, post), "C07", "allowances", "")
    /\ Chk(C07_FailedUnchanged(pre, ev, post), "C07", "failed-unchanged", "")
    /\ Chk(C09_Funds(pre, ev, post), "C09", "funds", "")
    /\ Chk(C09_Credit(pre, ev, post), "C09", "credit", "")
    /\ Chk(C19_Monotone(pre, post), "C19", "registry-grows", "")
    /\ Chk(C10_Swap(pre, ev), "C10", "swap", "")
    /\ Chk(C11_Minimum(pre, ev, post), "C11", "minimum", "")
    /\ Chk(C13_PassThrough(pre, ev, post), "C13", "pass-through", "")
    /\ Chk(C13_Shape(pre, ev), "C13", "shape", "")
    /\ Chk(C14_Auth(pre, ev, post), "C14", "auth", "")
    /\ Chk(C15_Provide(pre, ev), "C15", "provide", "")
    /\ Chk(C16_Create(pre, ev, post), "C16", "create", "")
    /\ Chk(C16_Requested(pre, ev, post), "C16", "requested", "")
    /\ Chk(C06_ConfiguredRate(pre, ev, post), "C06", "configured-rate", "")
    /\ Chk(C05_ConfiguredGate(pre, ev, post), "C05", "configured-gate", "")
    /\ Chk(C16_RegistryInv(post), "C16", "registry-inv", "")
    /\ Chk(C17_Update(pre, ev, post), "C17", "update", "")
    /\ Chk(C17_DecimalsInv(post), "C17", "decimals-inv", "")
    /\ Chk(C20_Withdrawable(pre, ev), "C20", "withdrawable", "")
    \* clauses that use the quote taken immediately before, in the same state
    /\ IF lastq.kind = "q_simulation"
       THEN /\ Chk(C10_Rejected(pre, ev, lastq.op, lastq.ans), "C10", "rejected", "")
            /\ Chk(\* C12: the quote equals what the immediately following swap of the same offer produces
                   (C02_Applies(pre, ev) /\ lastq.ans.ok /\ SwapPair(ev) = lastq.op.pair /\ SwapDecl(ev).offer = lastq.op.offer
                      /\ \A i \in DOMAIN SwapFunds(ev) : SwapFunds(ev)[i][1] = SwapDecl(ev).offer.info.id) =>
                       LET e == SwapEvsOn(ev, SwapPair(ev))[1] IN
                       /\ e.return_amount = lastq.ans.ret
                       /\ e.spread_amount = lastq.ans.spread
                       /\ e.commission_amount = lastq.ans.comm,
                   "C12", "forward", "")
       ELSE TRUE
    /\ IF lastq.kind = "q_router_sim" /\ lastq.ans.ok /\ IsRouteTx(pre, ev)
          /\ lastq.op.operations = RouteOps(ev) /\ lastq.op.amount = RouteInAmt(ev)
       THEN /\ Chk(C13_Quoted(pre, ev, post, lastq.ans.amount), "C13", "quoted", "")
            /\ Chk(\* C11: a route that would deliver less than the minimum fails
                   (Len(RouteOps(ev)) > 0 /\ DistinctPairs(pre, ev) /\ RouterEmpty(pre, ev) /\ RouteDecl(ev).min.some
                      /\ NLt(lastq.ans.amount, RouteDecl(ev).min.v)) => ~TxOk(ev),
                   "C11", "would-deliver-less", "")
       ELSE TRUE

QChecks(w, q, ans) ==
    CASE q.op = "q_simulation" -> Chk(C06_Sim(w, q, ans), "C06", "simulation", "")
      [] q.op = "q_reverse" ->
            Chk((ans.ok /\ q.pair \in Pairs(w) /\ PosIn(w, q.pair, q.ask.info) >= 0) =>
                    LET p == q.pair  i == PosIn(w, p, q.ask.info) IN
                    C12_Reverse(ResAt(w, p, 1 - i), ResAt(w, p, i), q.ask.amount, w.pair[p].commission,
                                [ok |-> TRUE, offer |-> ans.offer]),
                "C12", "reverse", "")
      [] q.op \in {"q_router_sim_fold", "q_router_rev_fold"} ->
            Chk((ans.router.ok <=> ans.fold.ok) /\ (ans.router.ok => ans.router.amount = ans.fold.amount), "C12", "router-fold", "")
      [] q.op = "q_fac_pair" -> Chk(C16_Lookup(w, q, ans), "C16", "lookup", "")
      [] q.op = "q_fac_walk" -> Chk(C19_Walk(w, q, ans, DefaultLimit, MaxLimit), "C19", "walk", "")
      [] q.op = "q_native_decimals" ->
            Chk(IF q.denom \in DOMAIN w.fac.native THEN ans.ok /\ ans.decimals = w.fac.native[q.denom] ELSE ~ans.ok,
                "C17", "denom-query", "")
      [] OTHER -> TRUE

\* which properties a step exercises non-trivially
TxApplies(pre, ev) ==
    (IF TxOk(ev) /\ PairsSwapped(pre, ev) # {} THEN {"C01", "C06"} ELSE {})
    \cup (IF \E p \in Pairs(pre) : LpSupply(pre, p) # N0 THEN {"C03"} ELSE {})
    \cup (IF C02_Applies(pre, ev) THEN {"C02"} ELSE {})
    \cup (IF C04_Applies(pre, ev) THEN {"C04"} ELSE {})
    \cup (IF C05_Applies(pre, ev) THEN {"C05"} ELSE {})
    \cup {"C07"}
    \cup (IF C09_Applies(ev) THEN {"C09"} ELSE {})
    \cup (IF C10_Applies(pre, ev) \/ (IsSwapTx(ev) /\ ev.res.why = "err:Max spread assertion" /\ lastq.kind = "q_simulation") THEN {"C10"} ELSE {})
    \cup (IF C11_Applies(pre, ev) /\ (RouteDecl(ev).min.some \/ ~TxOk(ev)) THEN {"C11"} ELSE {})
    \cup (IF lastq.kind = "q_simulation" /\ C02_Applies(pre, ev) THEN {"C12"} ELSE {})
    \cup (IF C13_Applies(pre, ev) \/ (IsRouteTx(pre, ev) /\ ~TxOk(ev)) THEN {"C13"} ELSE {})
    \cup (IF C14_Applies(ev) THEN {"C14"} ELSE {})
    \cup (IF C15_Applies(pre, ev) THEN {"C15"} ELSE {})
    \cup (IF Kind(ev) = "fac_create_pair" THEN {"C16"} ELSE {})
    \cup (IF TxOk(ev) /\ Kind(ev) = "fac_add_native" THEN {"C17"} ELSE {})
    \cup (IF C20_Qualifies(pre, ev) THEN {"C20"} ELSE {})

QApplies(q, ans) ==
    CASE q.op = "q_simulation" -> IF ans.ok THEN {"C06"} ELSE {}
      [] q.op = "q_reverse"    -> IF ans.ok THEN {"C12"} ELSE {}
      [] q.op \in {"q_router_sim_fold", "q_router_rev_fold"} -> {"C12"}
      [] q.op = "q_fac_pair"   -> {"C16"}
      [] q.op = "q_fac_walk"   -> {"C19"}
      [] q.op = "q_native_decimals" -> {"C17"}
      [] OTHER -> {}

Init == l = 1 /\ obs = <<>> /\ lastq = NoQ /\ app = [p \in PIDS |-> <<>>]

Bump(S) == app' = [p \in PIDS |-> IF p \in S THEN Append(app[p], l) ELSE app[p]]

Step ==
    /\ l <= Len(Rec)
    /\ LET e == Rec[l] IN
       CASE e.k = "reset" ->
              LET w == Canon(e.world) IN
              /\ Chk(C16_RegistryInv(w), "C16", "registry-inv", "")
              /\ Chk(C17_DecimalsInv(w), "C17", "decimals-inv", "")
              /\ obs' = w /\ lastq' = NoQ /\ Bump({})
         [] e.k = "tx" ->
              LET post == Canon(e.post)
                  ev == [op |-> e.op, res |-> e.res]
              IN  /\ TxChecks(obs, ev, post)
                  /\ RefTx(obs, e, post)
                  /\ Bump(TxApplies(obs, ev))
                  /\ obs' = post /\ lastq' = NoQ
         [] e.k = "q" ->
              /\ QChecks(obs, e.op, e.ans)
              /\ RefQ(obs, e.op, e.ans)
              /\ Bump(QApplies(e.op, e.ans))
              /\ lastq' = [kind |-> e.op.op, op |-> e.op, ans |-> e.ans]
              /\ obs' = obs
    /\ l' = l + 1
    /\ IF l = Len(Rec) THEN PrintT(<<"DONE", Len(Rec), app'>>) ELSE TRUE

Spec == Init /\ [][Step]_vars
=============================================================================

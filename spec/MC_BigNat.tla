------------------------------ MODULE MC_BigNat ------------------------------
(* Self-test of the big-natural oracle: exhaustive agreement with TLC's Int   *)
(* arithmetic on a small operand set that straddles the limb boundaries, and  *)
(* algebraic identities (division identity, distributivity, ...) on large     *)
(* structured operands up to 2^512.                                           *)
EXTENDS BigNat, TLC, FiniteSets

CONSTANT QUICK      \* TRUE: reduced operand sets (seconds); FALSE: the full self-test (minutes)

SmallSet == (IF QUICK THEN 0..12 ELSE 0..70) \cup ((B-3)..(B+3)) \cup ((2*B-3)..(2*B+3)) \cup {46340, 46341, 98303}

SmallOK(x, y) ==
    LET a == OfInt(x)  b == OfInt(y) IN
    /\ IsBig(a) /\ ToInt(a) = x
    /\ Add(a, b) = OfInt(x + y)
    /\ (x >= y => Sub(a, b) = OfInt(x - y))
    /\ ((y = 0 \/ x <= 2147483647 \div y) => Mul(a, b) = OfInt(x * y))
    /\ (y # 0 => DivMod(a, b) = <<OfInt(x \div y), OfInt(x % y)>>)
    /\ Cmp(a, b) = (IF x < y THEN -1 ELSE IF x > y THEN 1 ELSE 0)

Ks == IF QUICK THEN {1, 15, 30, 64, 128, 256} ELSE {1, 14, 15, 16, 29, 30, 31, 45, 63, 64, 65, 127, 128, 129, 255, 256, 300}
Ts == IF QUICK THEN {1, 18, 38, 77} ELSE {1, 9, 17, 18, 19, 36, 38, 39, 59, 77, 78}
Big0 == {Pow2(k) : k \in Ks} \cup {Sub(Pow2(k), One) : k \in Ks} \cup {Add(Pow2(k), One) : k \in Ks}
        \cup {Pow10(t) : t \in Ts} \cup {Sub(Pow10(t), One) : t \in Ts}
        \cup {Zero, One, OfInt(32767), OfInt(32768), OfInt(12345678)}
        \cup {Mul(Sub(Pow2(128), One), Pow10(18)), Mul(Sub(Pow2(128), One), Sub(Pow2(128), One))}

LargeOK(a, b) ==
    /\ IsBig(a) /\ IsBig(b)
    /\ LET s == Add(a, b)  p == Mul(a, b) IN
       /\ IsBig(s) /\ IsBig(p)
       /\ Sub(s, b) = a /\ Sub(s, a) = b
       /\ p = Mul(b, a)
       /\ Le(a, s) /\ Le(b, s)
       /\ (b # Zero =>
             LET qr == DivMod(a, b)  qp == DivMod(p, b)  q1 == DivMod(Add(p, Sub(b, One)), b) IN
             /\ IsBig(qr[1]) /\ IsBig(qr[2])
             /\ Add(Mul(qr[1], b), qr[2]) = a /\ Lt(qr[2], b)
             /\ qp = <<a, Zero>>
             /\ q1 = <<a, Sub(b, One)>>)
       /\ OfDigits(ToDigits(a)) = a
       /\ Mul(a, Add(b, One)) = Add(p, a)

VARIABLE st
Init == st \in {"small", "large"}
Next == UNCHANGED st
Inv  == /\ st = "small" => \A x \in SmallSet : \A y \in SmallSet : SmallOK(x, y)
        /\ st = "large" => \A a \in Big0 : \A b \in Big0 : LargeOK(a, b)
Counts == <<Cardinality(SmallSet) * Cardinality(SmallSet), Cardinality(Big0) * Cardinality(Big0)>>
=============================================================================

-------------------------------- MODULE NumBig --------------------------------
(* BigNat instance of the Num interface, production constants.               *)
LOCAL INSTANCE Integers
LOCAL INSTANCE Sequences
LOCAL INSTANCE TLC
BN == INSTANCE BigNat

BAdd(a, b) == BN!Add(a, b)
BSub(a, b) == BN!Sub(a, b)
BMul(a, b) == BN!Mul(a, b)
BDiv(a, b) == BN!DivMod(a, b)[1]
BMod(a, b) == BN!DivMod(a, b)[2]
BLe(a, b)  == BN!Le(a, b)
BOfInt(n)  == BN!OfInt(n)

\* floor square root by Newton iteration from above
RECURSIVE BSqrtIter(_, _)
BSqrtIter(n, x) ==
    LET y == BN!DivSmall(BN!Add(x, BN!DivMod(n, x)[1]), 2)[1]
    IN  IF BN!Lt(y, x) THEN BSqrtIter(n, y) ELSE x
BSqrt(n) == IF n = <<>> THEN <<>> ELSE BSqrtIter(n, BN!Pow2(8 * Len(n)))

BigD    == BN!Pow10(18)
BigU128 == BN!Sub(BN!Pow2(128), BN!One)
BigU256 == BN!Sub(BN!Pow2(256), BN!One)
Big0    == BN!Zero
Big1    == BN!One
=============================================================================

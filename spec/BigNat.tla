------------------------------- MODULE BigNat -------------------------------
(***************************************************************************)
(* Arbitrary-precision natural numbers in pure TLA+.                       *)
(*                                                                         *)
(* A big natural is a little-endian sequence of limbs in base 2^15         *)
(* (<<>> is zero; the most significant limb is never 0).  Every limb       *)
(* product plus carries stays below 2^31, i.e. inside TLC's 32-bit Int.    *)
(*                                                                         *)
(* This module is the independent arithmetic oracle used when TLC          *)
(* evaluates the specification on traces recorded from the real contracts  *)
(* (amounts up to 2^128, intermediate products up to 2^512).  No Java      *)
(* module override exists for it: TLC evaluates these definitions.         *)
(***************************************************************************)
EXTENDS Integers, Sequences, TLC

B == 32768                       \* 2^15

IsBig(a) == /\ a \in Seq(0..(B-1))
            /\ (a = <<>> \/ a[Len(a)] # 0)

Zero == <<>>
One  == <<1>>

Limb(a, i) == IF i >= 1 /\ i <= Len(a) THEN a[i] ELSE 0

RECURSIVE Norm(_)
Norm(a) == IF a = <<>> THEN a
           ELSE IF a[Len(a)] = 0 THEN Norm(SubSeq(a, 1, Len(a) - 1))
           ELSE a

RECURSIVE OfInt(_)
OfInt(n) == IF n = 0 THEN <<>> ELSE <<n % B>> \o OfInt(n \div B)

\* only meaningful when the value fits TLC's Int
RECURSIVE ToIntFrom(_, _)
ToIntFrom(a, i) == IF i > Len(a) THEN 0 ELSE a[i] + B * ToIntFrom(a, i + 1)
ToInt(a) == ToIntFrom(a, 1)
FitsInt(a) == Len(a) <= 2         \* < 2^30

Max2(x, y) == IF x >= y THEN x ELSE y
Min2(x, y) == IF x <= y THEN x ELSE y

(***************************************************************************)
(* Comparison: -1, 0, 1                                                    *)
(***************************************************************************)
RECURSIVE CmpFrom(_, _, _)
CmpFrom(a, b, i) ==
    IF i = 0 THEN 0
    ELSE IF a[i] < b[i] THEN -1
    ELSE IF a[i] > b[i] THEN 1
    ELSE CmpFrom(a, b, i - 1)

Cmp(a, b) == IF Len(a) < Len(b) THEN -1
             ELSE IF Len(a) > Len(b) THEN 1
             ELSE CmpFrom(a, b, Len(a))

Le(a, b) == Cmp(a, b) <= 0
Lt(a, b) == Cmp(a, b) < 0
Eq(a, b) == a = b

(***************************************************************************)
(* Addition                                                                *)
(***************************************************************************)
RECURSIVE AddFrom(_, _, _, _, _)
AddFrom(a, b, i, n, c) ==
    IF i > n THEN (IF c = 0 THEN <<>> ELSE <<c>>)
    ELSE LET s == Limb(a, i) + Limb(b, i) + c
         IN  <<s % B>> \o AddFrom(a, b, i + 1, n, s \div B)

Add(a, b) == AddFrom(a, b, 1, Max2(Len(a), Len(b)), 0)

(***************************************************************************)
(* Subtraction a - b, requires b <= a                                      *)
(***************************************************************************)
RECURSIVE SubFrom(_, _, _, _)
SubFrom(a, b, i, br) ==
    IF i > Len(a) THEN <<>>
    ELSE LET d == a[i] - Limb(b, i) - br
         IN  IF d < 0 THEN <<d + B>> \o SubFrom(a, b, i + 1, 1)
                      ELSE <<d>> \o SubFrom(a, b, i + 1, 0)

Sub(a, b) == Norm(SubFrom(a, b, 1, 0))

(***************************************************************************)
(* Multiplication                                                          *)
(***************************************************************************)
RECURSIVE MulSmallFrom(_, _, _, _)
MulSmallFrom(a, m, i, c) ==
    IF i > Len(a) THEN (IF c = 0 THEN <<>> ELSE <<c>>)
    ELSE LET p == a[i] * m + c
         IN  <<p % B>> \o MulSmallFrom(a, m, i + 1, p \div B)

\* m in 0..B-1
MulSmall(a, m) == IF m = 0 \/ a = <<>> THEN <<>> ELSE MulSmallFrom(a, m, 1, 0)

ShiftUp(a, k) == IF a = <<>> THEN <<>> ELSE [i \in 1..k |-> 0] \o a

\* Schoolbook product by columns.  Each limb product p < 2^30 is split into p % B and
\* p \div B so that a column sum of up to Len limbs stays far below 2^31; one carry
\* pass then normalises the coefficients.
RECURSIVE ColSum(_, _, _, _, _, _, _)
ColSum(a, b, k, i, hi, lo, up) ==
    IF i > hi THEN <<lo, up>>
    ELSE LET p == a[i] * b[k + 1 - i]
         IN  ColSum(a, b, k, i + 1, hi, lo + (p % B), up + (p \div B))

RECURSIVE CarryFrom(_, _, _)
CarryFrom(co, k, c) ==
    IF k > Len(co) THEN (IF c = 0 THEN <<>> ELSE <<c>>)
    ELSE LET s == co[k] + c
         IN  <<s % B>> \o CarryFrom(co, k + 1, s \div B)

Mul(a, b) ==
    IF a = <<>> \/ b = <<>> THEN <<>>
    ELSE LET n    == Len(a)
             m    == Len(b)
             cols == [k \in 1..(n + m) |-> ColSum(a, b, k, Max2(1, k + 1 - m), Min2(n, k), 0, 0)]
             co   == [k \in 1..(n + m) |-> cols[k][1] + (IF k > 1 THEN cols[k - 1][2] ELSE 0)]
         IN  Norm(CarryFrom(co, 1, 0))

(***************************************************************************)
(* Division by a single limb: <<quotient, remainder (Int)>>                *)
(***************************************************************************)
RECURSIVE DivSmallFrom(_, _, _, _, _)
\* processes limbs i, i-1, ..., 1; acc holds the quotient limbs already produced
\* (little-endian).  The guards force TLC to evaluate each digit before descending
\* (operator arguments are lazy; unforced chains overflow the Java stack).
DivSmallFrom(a, m, i, r, acc) ==
    IF i = 0 THEN <<acc, r>>
    ELSE LET cur == r * B + a[i]
             q   == cur \div m
             nr  == cur % m
             na  == <<q>> \o acc
         IN  IF nr >= 0 /\ Len(na) > 0 THEN DivSmallFrom(a, m, i - 1, nr, na)
             ELSE Assert(FALSE, "BigNat.DivSmallFrom")

DivSmall(a, m) == LET res == DivSmallFrom(a, m, Len(a), 0, <<>>)
                  IN  <<Norm(res[1]), res[2]>>

(***************************************************************************)
(* Long division (Knuth D shape): DivMod(n, d) = <<q, r>>, d # 0.          *)
(* Single-limb normalisation makes the top limb of d >= B/2, so that the   *)
(* two-limb estimate exceeds the true digit by at most 2; the correction   *)
(* simply decrements until the partial product fits.                       *)
(***************************************************************************)
RECURSIVE FitDigit(_, _, _)
FitDigit(rem, d, q) == IF Le(MulSmall(d, q), rem) THEN q ELSE FitDigit(rem, d, q - 1)

RECURSIVE LongDivFrom(_, _, _, _, _)
\* brings down limbs i, i-1, ..., 1 of n; rem < d on entry; acc = quotient so far
LongDivFrom(n, d, i, rem, acc) ==
    IF i = 0 THEN <<acc, rem>>
    ELSE LET cur  == Norm(<<n[i]>> \o rem)                       \* rem*B + n[i]
             k    == Len(d)
             est  == Min2(B - 1, (Limb(cur, k + 1) * B + Limb(cur, k)) \div d[k])
             q    == FitDigit(cur, d, est)
             nr   == Sub(cur, MulSmall(d, q))
             na   == <<q>> \o acc
         IN  IF Len(nr) >= 0 /\ Len(na) > 0 THEN LongDivFrom(n, d, i - 1, nr, na)
             ELSE Assert(FALSE, "BigNat.LongDivFrom")

DivMod(n, d) ==
    IF Lt(n, d) THEN <<<<>>, n>>
    ELSE IF Len(d) = 1 THEN LET r == DivSmall(n, d[1]) IN <<r[1], OfInt(r[2])>>
    ELSE LET f   == B \div (d[Len(d)] + 1)
             nn  == MulSmall(n, f)
             dd  == MulSmall(d, f)
             res == LongDivFrom(nn, dd, Len(nn), <<>>, <<>>)
         IN  <<Norm(res[1]), DivSmall(res[2], f)[1]>>

Div(n, d) == DivMod(n, d)[1]
Mod(n, d) == DivMod(n, d)[2]

(***************************************************************************)
(* Powers, decimal digits                                                  *)
(***************************************************************************)
RECURSIVE Pow10(_)
Pow10(k) == IF k = 0 THEN One ELSE MulSmall(Pow10(k - 1), 10)

Pow2(k) == [i \in 1..(k \div 15) |-> 0] \o <<2 ^ (k % 15)>>

\* digits: sequence of 0..9, most significant first; <<>> denotes 0
RECURSIVE OfDigitsFrom(_, _, _)
OfDigitsFrom(ds, i, acc) ==
    IF i > Len(ds) THEN acc
    ELSE LET na == Add(MulSmall(acc, 10), OfInt(ds[i]))
         IN  IF Len(na) >= 0 THEN OfDigitsFrom(ds, i + 1, na) ELSE Assert(FALSE, "BigNat.OfDigits")
OfDigits(ds) == OfDigitsFrom(ds, 1, <<>>)

\* canonical decimal numeral, most significant first; zero is <<0>>
RECURSIVE ToDigitsAcc(_, _)
ToDigitsAcc(a, acc) ==
    IF a = <<>> THEN acc
    ELSE LET r == DivSmall(a, 10) IN ToDigitsAcc(r[1], <<r[2]>> \o acc)
ToDigits(a) == IF a = <<>> THEN <<0>> ELSE ToDigitsAcc(a, <<>>)

\* integer square root characterised relationally (used as a checker, not a generator)
IsISqrt(s, n) == /\ Le(Mul(s, s), n)
                 /\ Lt(n, Mul(Add(s, One), Add(s, One)))
=============================================================================

------------------------------ MODULE Trace_Math ------------------------------
(***************************************************************************)
(* Trace validation, function level.  Every line of the NDJSON file named  *)
(* by the environment variable TRACE is one call of a real function of     *)
(* the repository (recorded by /verif/harness, `math` driver) with its     *)
(* operands and its observed result.  TLC consumes one event per step,     *)
(* over the BigNat number domain with the production constants, and        *)
(*   (alarm)      evaluates the property clauses of PropsMath on the       *)
(*                observed result, and for C08 requires the observed       *)
(*                result to be exactly the one defined by Fixed;           *)
(*   (diagnostic) compares the observed result with the specification's    *)
(*                own formula (DEV lines: never an alarm).                 *)
(* Findings are printed and validation continues, so the rest of the       *)
(* trace is still checked.  The final step prints DONE with the number of  *)
(* events consumed and, per property, the events that exercised it.                 *)
(***************************************************************************)
EXTENDS PropsMath, NumBig, Sequences, FiniteSets, TLC, Json, IOUtils

Rec == ndJsonDeserialize(IOEnv.TRACE)

PIDS == {"C01", "C05", "C06", "C08", "C10", "C12", "C15", "C18"}

VARIABLES l, app       \* app[p]: indices of the events that exercised property p non-trivially
vars == <<l, app>>

Rep(tag, prop, clause, known) == PrintT(<<tag, prop, clause, l, known, Rec[l].h>>)
\* a clause holds, or is reported (and the step goes on).  IF, not \/: TLC would split a
\* disjunction inside an action into alternative successors and evaluate both branches.
Chk(cond, prop, clause, known) == IF cond THEN TRUE ELSE Rep("VIOL", prop, clause, known)
Dev(cond, what) == IF cond THEN TRUE ELSE Rep("DEV", "-", what, "")

Opt(o) == IF o.some THEN Some(o.v) ELSE None

SwapObs(r) == r
SwapSame(r, m) ==
    IF m.ok THEN r.ok /\ r.ret = m.v.ret /\ r.spread = m.v.spread /\ r.comm = m.v.comm
    ELSE ~r.ok

SwapChecks(x, y, a, c, r) ==
    /\ Chk(C01_Swap(x, y, a, r), "C01", "product", IF KF1Window(x, y, a) THEN "KF-1" ELSE "")
    /\ Chk(C06_Price(x, y, a, c, r), "C06", "price", "")
    /\ Chk(C06_Commission(c, r), "C06", "commission", "")
    /\ Chk(C06_Spread(x, y, a, r), "C06", "spread", "")
    /\ Dev(SwapSame(r, ComputeSwap(x, y, a, c)), "compute_swap")

GuardSame(r, m) == (r.ok <=> m.ok) /\ (IsSpreadReject(r) <=> IsSpreadReject(m))
                                   /\ (IsSlippageReject(r) <=> IsSlippageReject(m))

\* C08: the observed result of one Uint256 / Decimal256 operator is exactly Fixed's
ArithModel(ev) ==
    LET a == ev.a  b == ev.b  c == ev.c IN
    CASE ev.ty = "u256" /\ ev.op \in {"add", "addassign"} -> U256Add(a, b)
      [] ev.ty = "u256" /\ ev.op = "sub"      -> U256Sub(a, b)
      [] ev.ty = "u256" /\ ev.op = "mul"      -> U256Mul(a, b)
      [] ev.ty = "u256" /\ ev.op = "muldec"   -> UintMulDec(a, b)
      [] ev.ty = "u256" /\ ev.op = "decmul"   -> UintMulDec(a, b)
      [] ev.ty = "u256" /\ ev.op = "divdec"   -> UintDivDec(a, b)
      [] ev.ty = "u256" /\ ev.op = "mulratio" -> MultiplyRatio(a, b, c)
      [] ev.ty = "u256" /\ ev.op = "to128"    -> To128(a)
      [] ev.ty = "u256" /\ ev.op = "from128"  -> To128(a)
      [] ev.ty = "dec256" /\ ev.op \in {"add", "addassign"} -> DecAdd(a, b)
      [] ev.ty = "dec256" /\ ev.op = "sub"    -> DecSub(a, b)
      [] ev.ty = "dec256" /\ ev.op = "mul"    -> DecMul(a, b)
      [] ev.ty = "dec256" /\ ev.op = "div"    -> DecDiv(a, b)
      [] ev.ty = "dec256" /\ ev.op = "fromratio" -> DecFromRatio(a, b)
      [] ev.ty = "dec256" /\ ev.op = "fromuint"  -> DecFromUint(a)
      [] ev.op = "percent"                       -> RawMul(a, NDiv(DFRAC, NOfInt(100)))
      [] ev.op = "permille"                      -> RawMul(a, NDiv(DFRAC, NOfInt(1000)))
      [] ev.op = "from64"                        -> Ok(a)

\* the mathematical result of the operator (no width restriction on intermediates): [def, v]
Exactly(def, v) == [def |-> def /\ Fits256(v), v |-> v]
ArithExact(ev) ==
    LET a == ev.a  b == ev.b  c == ev.c
        quo(n, d) == IF d = N0 THEN [def |-> FALSE, v |-> N0] ELSE Exactly(TRUE, NDiv(n, d))
    IN
    CASE ev.op \in {"add", "addassign"}            -> Exactly(TRUE, NAdd(a, b))
      [] ev.op \in {"sub"}                         -> IF NLe(b, a) THEN Exactly(TRUE, NSub(a, b)) ELSE [def |-> FALSE, v |-> N0]
      [] ev.ty = "u256" /\ ev.op = "mul"           -> Exactly(TRUE, NMul(a, b))
      [] ev.op \in {"muldec", "decmul"}            -> Exactly(TRUE, NDiv(NMul(a, b), DFRAC))
      [] ev.op = "divdec"                          -> quo(NMul(a, DFRAC), b)
      [] ev.op = "mulratio"                        -> quo(NMul(a, b), c)
      [] ev.op \in {"to128", "from128"}            -> [def |-> Fits128(a), v |-> a]
      [] ev.ty = "dec256" /\ ev.op = "mul"         -> Exactly(TRUE, NDiv(NMul(a, b), DFRAC))
      [] ev.op \in {"div", "fromratio"}            -> quo(NMul(a, DFRAC), b)
      [] ev.op = "fromuint"                        -> Exactly(TRUE, NMul(a, DFRAC))
      [] ev.op = "percent"                         -> Exactly(TRUE, NDiv(NMul(a, DFRAC), NOfInt(100)))
      [] ev.op = "permille"                        -> Exactly(TRUE, NDiv(NMul(a, DFRAC), NOfInt(1000)))
      [] ev.op = "from64"                          -> Exactly(TRUE, a)

\* C08: a returned value is exactly the mathematical result (whatever intermediate width the code uses); an abort
\* happens only where the statement allows one: an operand product or the result exceeds 256 bits, a divisor is
\* zero, a difference would be negative - which is exactly where Fixed's checked-U256 definition aborts.
ArithOK(ev) ==
    IF ev.op = "cmp"
    THEN ev.r.v = (IF NLt(ev.a, ev.b) THEN -1 ELSE IF ev.a = ev.b THEN 0 ELSE 1)
    ELSE IF ev.op = "iszero"
    THEN ev.r.v = (IF ev.a = N0 THEN 1 ELSE 0)
    ELSE IF ev.r.ok
         THEN ArithExact(ev).def /\ ev.r.v = ArithExact(ev).v
         ELSE ~ArithModel(ev).ok

(***************************************************************************)
(* C18: text, JSON and width conversions.  Text is a sequence of byte      *)
(* codes ('0' = 48, '.' = 46); numerals are produced and read by BigNat's  *)
(* ToDigits / OfDigits, a different algorithm from the code's.             *)
(***************************************************************************)
DOT == 46
IsDigitByte(b) == b >= 48 /\ b <= 57
ByteDigits(n) == LET ds == BN!ToDigits(n) IN [i \in DOMAIN ds |-> ds[i] + 48]
DigitsOfBytes(s) == [i \in DOMAIN s |-> s[i] - 48]
RECURSIVE TrimRightZeros(_)
TrimRightZeros(s) == IF s # <<>> /\ s[Len(s)] = 48 THEN TrimRightZeros(SubSeq(s, 1, Len(s) - 1)) ELSE s
Pad18(s) == [i \in 1..(18 - Len(s)) |-> 48] \o s

\* the canonical decimal numeral of the Decimal256 with atomics v
Render(v) ==
    LET w == NDiv(v, DFRAC)  f == NMod(v, DFRAC) IN
    IF f = N0 THEN ByteDigits(w) ELSE ByteDigits(w) \o <<DOT>> \o TrimRightZeros(Pad18(ByteDigits(f)))

Dots(s) == {i \in DOMAIN s : s[i] = DOT}
OnlyDigitsAndDots(s) == \A i \in DOMAIN s : IsDigitByte(s[i]) \/ s[i] = DOT
\* a numeral with non-empty digit groups (strings with an empty group are not judged)
WellFormedDec(s) ==
    /\ OnlyDigitsAndDots(s) /\ Cardinality(Dots(s)) <= 1
    /\ IF Dots(s) = {} THEN Len(s) >= 1
       ELSE LET d == CHOOSE i \in Dots(s) : TRUE IN d > 1 /\ d < Len(s)
FracLen(s) == IF Dots(s) = {} THEN 0 ELSE Len(s) - (CHOOSE i \in Dots(s) : TRUE)
\* atomics denoted by a well-formed numeral with at most 18 fraction digits
Denoted(s) ==
    IF Dots(s) = {} THEN NMul(BN!OfDigits(DigitsOfBytes(s)), DFRAC)
    ELSE LET d == CHOOSE i \in Dots(s) : TRUE
             w == BN!OfDigits(DigitsOfBytes(SubSeq(s, 1, d - 1)))
             fs == SubSeq(s, d + 1, Len(s))
         IN  NAdd(NMul(w, DFRAC), NMul(BN!OfDigits(DigitsOfBytes(fs)), BN!Pow10(18 - Len(fs))))

DecParseOK(s, r) ==
    /\ (OnlyDigitsAndDots(s) /\ Cardinality(Dots(s)) >= 2) => ~r.ok
    /\ WellFormedDec(s) =>
          /\ FracLen(s) > 18 => ~r.ok
          /\ (r.ok /\ FracLen(s) <= 18) => r.v = Denoted(s)
UintParseOK(s, r) ==
    /\ (OnlyDigitsAndDots(s) /\ Dots(s) # {}) => ~r.ok
    /\ (OnlyDigitsAndDots(s) /\ Dots(s) = {} /\ Len(s) >= 1 /\ r.ok) => r.v = BN!OfDigits(DigitsOfBytes(s))

TextOK(ev) ==
    CASE ev.op = "dec_render"  -> ev.s = Render(ev.v)
      [] ev.op = "uint_render" -> ev.s = ByteDigits(ev.v) /\ ev.s2 = ev.s
      [] ev.op \in {"dec_parse", "dec_json_parse"} -> DecParseOK(ev.s_in, ev.r)
      [] ev.op = "uint_parse"  -> UintParseOK(ev.s_in, ev.r) /\ UintParseOK(ev.s_in, ev.r2) /\ (ev.r.ok <=> ev.r2.ok)
      [] ev.op = "uint_json_parse" -> UintParseOK(ev.s_in, ev.r)
      [] ev.op \in {"dec_roundtrip", "uint_roundtrip"} ->
            /\ ev.r.ok /\ ev.r.v = ev.v
            /\ ev.r2.ok /\ ev.r2.v = ev.v
            /\ ev.r3.ok /\ ev.r3.v = ev.v
      [] ev.op = "dec_to128"   -> IF Fits128(ev.v) THEN ev.r.ok /\ ev.r.v = ev.v ELSE ~ev.r.ok
      [] ev.op = "dec_from128" -> ev.r.ok /\ ev.r.v = ev.v
      [] ev.op = "uint_to128"  ->
            /\ IF Fits128(ev.v) THEN ev.r.ok /\ ev.r.v = ev.v ELSE ~ev.r.ok
            /\ IF Fits128(ev.v) THEN ev.r2.ok /\ ev.r2.v = ev.v ELSE ~ev.r2.ok
      [] ev.op = "uint_from128" ->
            /\ ev.r.ok /\ ev.r.v = ev.v
            /\ ev.r2.ok /\ ev.r2.v = ev.v
            /\ ev.r3.ok /\ ev.r3.v = ev.low64

Check(ev) ==
    CASE ev.k = "swap" -> SwapChecks(ev.x, ev.y, ev.a, ev.c, ev.r)
      [] ev.k = "swapmono" ->
            /\ Chk(C06_Monotone(ev.a1, ev.r1, ev.a2, ev.r2), "C06", "monotone", "")
            /\ SwapChecks(ev.x, ev.y, ev.a1, ev.c, ev.r1)
            /\ SwapChecks(ev.x, ev.y, ev.a2, ev.c, ev.r2)
      [] ev.k = "reverse" ->
            /\ Chk(C12_Reverse(ev.x, ev.y, ev.b, ev.c, ev.r), "C12", "reverse", "")
            /\ LET m == ComputeOfferAmount(ev.x, ev.y, ev.b, ev.c) IN
               Dev(IF m.ok THEN ev.r.ok /\ ev.r.offer = m.v.offer /\ ev.r.spread = m.v.spread /\ ev.r.comm = m.v.comm
                   ELSE ~ev.r.ok, "compute_offer_amount")
      [] ev.k = "share" ->
            /\ IF ev.S = N0
               THEN Chk(C05_First(ev.d0, ev.d1, ev.wl, ev.m0, ev.m1, ev.r), "C05", "first", "")
               ELSE Chk(C05_Share(ev.S, ev.d0, ev.d1, ev.r0, ev.r1, ev.r), "C05", "share", "")
            /\ LET m == LpShare(ev.S, ev.d0, ev.d1, ev.r0, ev.r1, ev.wl, ev.m0, ev.m1) IN
               Dev(IF m.ok THEN ev.r.ok /\ ev.r.v = m.v ELSE ~ev.r.ok, "lp_share")
      [] ev.k = "maxspread" ->
            /\ Chk(C10_Guard(Opt(ev.bp), Opt(ev.ms), ev.offer, ev.ret, ev.spread, ev.od, ev.rd, ev.r), "C10", "guard", "")
            /\ Dev(GuardSame(ev.r, AssertMaxSpread(Opt(ev.bp), Opt(ev.ms), ev.offer, ev.ret, ev.spread, ev.od, ev.rd)),
                   "assert_max_spread")
      [] ev.k = "slip" ->
            /\ Chk(C15_Guard(Opt(ev.t), ev.d0, ev.d1, ev.r0, ev.r1, ev.r), "C15", "guard", "")
            /\ Dev(GuardSame(ev.r, AssertSlippage(Opt(ev.t), ev.d0, ev.d1, ev.r0, ev.r1)), "assert_slippage_tolerance")
      [] ev.k = "arith" -> Chk(ArithOK(ev), "C08", ev.op, "")
      [] ev.k = "text"  -> Chk(TextOK(ev), "C18", ev.op, "")

\* which properties an event exercises non-trivially (its antecedent holds)
Applies(ev) ==
    CASE ev.k = "swap"      -> IF ev.r.ok THEN {"C01", "C06"} ELSE {}
      [] ev.k = "swapmono"  -> IF ev.r1.ok /\ ev.r2.ok THEN {"C01", "C06"} ELSE {}
      [] ev.k = "reverse"   -> IF ev.r.ok THEN {"C12"} ELSE {}
      [] ev.k = "share"     -> IF ev.r.ok THEN {"C05"} ELSE {}
      [] ev.k = "maxspread" -> IF ev.ms.some /\ (ev.r.ok \/ IsSpreadReject(ev.r)) THEN {"C10"} ELSE {}
      [] ev.k = "slip"      -> IF ev.t.some /\ (ev.r.ok \/ IsSlippageReject(ev.r)) THEN {"C15"} ELSE {}
      [] ev.k = "arith"     -> {"C08"}
      [] ev.k = "text"      -> {"C18"}

Init == l = 1 /\ app = [p \in PIDS |-> <<>>]

Step == /\ l <= Len(Rec)
        /\ Check(Rec[l])
        /\ app' = [p \in PIDS |-> IF p \in Applies(Rec[l]) THEN Append(app[p], l) ELSE app[p]]
        /\ l' = l + 1
        /\ IF l = Len(Rec) THEN PrintT(<<"DONE", Len(Rec), app'>>) ELSE TRUE

Spec == Init /\ [][Step]_vars
=============================================================================

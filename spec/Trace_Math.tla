------------------------------ MODULE Trace_Math ------------------------------
(***************************************************************************)
(* Trace validation, function level.  Every line of the NDJSON file named  *)
(* by the environment variable TRACE is one call of a real function of     *)
(* the repository (recorded by /verif/harness, `math` driver) with its     *)
(* operands and its observed result.  TLC consumes one event per step,     *)
(* over the BigNat number domain with the production constants, and        *)
(*   (alarm)      evaluates the property clauses of PropsMath on the       *)
(*                observed result, and for C08 requires the observed       *)
(*                result to be exactly the one defined by Fixed;           *)
(*   (diagnostic) compares the observed result with the specification's    *)
(*                own formula (DEV lines: never an alarm).                 *)
(* Findings are printed and validation continues, so the rest of the       *)
(* trace is still checked.  The final step prints DONE with the number of  *)
(* events consumed and, per property, the events that exercised it.                 *)
(***************************************************************************)
EXTENDS PropsMath, NumBig, Sequences, TLC, Json, IOUtils

Rec == ndJsonDeserialize(IOEnv.TRACE)

PIDS == {"C01", "C05", "C06", "C08", "C10", "C12", "C15"}

VARIABLES l, app       \* app[p]: indices of the events that exercised property p non-trivially
vars == <<l, app>>

Rep(tag, prop, clause, known) == PrintT(<<tag, prop, clause, l, known, Rec[l].h>>)
\* a clause holds, or is reported (and the step goes on).  IF, not \/: TLC would split a
\* disjunction inside an action into alternative successors and evaluate both branches.
Chk(cond, prop, clause, known) == IF cond THEN TRUE ELSE Rep("VIOL", prop, clause, known)
Dev(cond, what) == IF cond THEN TRUE ELSE Rep("DEV", "-", what, "")

Opt(o) == IF o.some THEN Some(o.v) ELSE None

SwapObs(r) == r
SwapSame(r, m) ==
    IF m.ok THEN r.ok /\ r.ret = m.v.ret /\ r.spread = m.v.spread /\ r.comm = m.v.comm
    ELSE ~r.ok

SwapChecks(x, y, a, c, r) ==
    /\ Chk(C01_Swap(x, y, a, r), "C01", "product", IF KF1Window(x, y, a) THEN "KF-1" ELSE "")
    /\ Chk(C06_Price(x, y, a, c, r), "C06", "price", "")
    /\ Chk(C06_Commission(c, r), "C06", "commission", "")
    /\ Chk(C06_Spread(x, y, a, r), "C06", "spread", "")
    /\ Dev(SwapSame(r, ComputeSwap(x, y, a, c)), "compute_swap")

GuardSame(r, m) == (r.ok <=> m.ok) /\ (IsSpreadReject(r) <=> IsSpreadReject(m))
                                   /\ (IsSlippageReject(r) <=> IsSlippageReject(m))

\* C08: the observed result of one Uint256 / Decimal256 operator is exactly Fixed's
ArithModel(ev) ==
    LET a == ev.a  b == ev.b  c == ev.c IN
    CASE ev.ty = "u256" /\ ev.op = "add"      -> U256Add(a, b)
      [] ev.ty = "u256" /\ ev.op = "sub"      -> U256Sub(a, b)
      [] ev.ty = "u256" /\ ev.op = "mul"      -> U256Mul(a, b)
      [] ev.ty = "u256" /\ ev.op = "muldec"   -> UintMulDec(a, b)
      [] ev.ty = "u256" /\ ev.op = "decmul"   -> UintMulDec(a, b)
      [] ev.ty = "u256" /\ ev.op = "divdec"   -> UintDivDec(a, b)
      [] ev.ty = "u256" /\ ev.op = "mulratio" -> MultiplyRatio(a, b, c)
      [] ev.ty = "u256" /\ ev.op = "to128"    -> To128(a)
      [] ev.ty = "u256" /\ ev.op = "from128"  -> To128(a)
      [] ev.ty = "dec256" /\ ev.op = "add"    -> DecAdd(a, b)
      [] ev.ty = "dec256" /\ ev.op = "sub"    -> DecSub(a, b)
      [] ev.ty = "dec256" /\ ev.op = "mul"    -> DecMul(a, b)
      [] ev.ty = "dec256" /\ ev.op = "div"    -> DecDiv(a, b)
      [] ev.ty = "dec256" /\ ev.op = "fromratio" -> DecFromRatio(a, b)
      [] ev.ty = "dec256" /\ ev.op = "fromuint"  -> DecFromUint(a)

ArithOK(ev) ==
    IF ev.op = "cmp"
    THEN ev.r.v = (IF NLt(ev.a, ev.b) THEN -1 ELSE IF ev.a = ev.b THEN 0 ELSE 1)
    ELSE LET m == ArithModel(ev) IN
         IF m.ok THEN ev.r.ok /\ ev.r.v = m.v ELSE ~ev.r.ok

Check(ev) ==
    CASE ev.k = "swap" -> SwapChecks(ev.x, ev.y, ev.a, ev.c, ev.r)
      [] ev.k = "swapmono" ->
            /\ Chk(C06_Monotone(ev.a1, ev.r1, ev.a2, ev.r2), "C06", "monotone", "")
            /\ SwapChecks(ev.x, ev.y, ev.a1, ev.c, ev.r1)
            /\ SwapChecks(ev.x, ev.y, ev.a2, ev.c, ev.r2)
      [] ev.k = "reverse" ->
            /\ Chk(C12_Reverse(ev.x, ev.y, ev.b, ev.c, ev.r), "C12", "reverse", "")
            /\ LET m == ComputeOfferAmount(ev.x, ev.y, ev.b, ev.c) IN
               Dev(IF m.ok THEN ev.r.ok /\ ev.r.offer = m.v.offer /\ ev.r.spread = m.v.spread /\ ev.r.comm = m.v.comm
                   ELSE ~ev.r.ok, "compute_offer_amount")
      [] ev.k = "share" ->
            /\ IF ev.S = N0
               THEN Chk(C05_First(ev.d0, ev.d1, ev.wl, ev.m0, ev.m1, ev.r), "C05", "first", "")
               ELSE Chk(C05_Share(ev.S, ev.d0, ev.d1, ev.r0, ev.r1, ev.r), "C05", "share", "")
            /\ LET m == LpShare(ev.S, ev.d0, ev.d1, ev.r0, ev.r1, ev.wl, ev.m0, ev.m1) IN
               Dev(IF m.ok THEN ev.r.ok /\ ev.r.v = m.v ELSE ~ev.r.ok, "lp_share")
      [] ev.k = "maxspread" ->
            /\ Chk(C10_Guard(Opt(ev.bp), Opt(ev.ms), ev.offer, ev.ret, ev.spread, ev.od, ev.rd, ev.r), "C10", "guard", "")
            /\ Dev(GuardSame(ev.r, AssertMaxSpread(Opt(ev.bp), Opt(ev.ms), ev.offer, ev.ret, ev.spread, ev.od, ev.rd)),
                   "assert_max_spread")
      [] ev.k = "slip" ->
            /\ Chk(C15_Guard(Opt(ev.t), ev.d0, ev.d1, ev.r0, ev.r1, ev.r), "C15", "guard", "")
            /\ Dev(GuardSame(ev.r, AssertSlippage(Opt(ev.t), ev.d0, ev.d1, ev.r0, ev.r1)), "assert_slippage_tolerance")
      [] ev.k = "arith" -> Chk(ArithOK(ev), "C08", ev.op, "")

\* which properties an event exercises non-trivially (its antecedent holds)
Applies(ev) ==
    CASE ev.k = "swap"      -> IF ev.r.ok THEN {"C01", "C06"} ELSE {}
      [] ev.k = "swapmono"  -> IF ev.r1.ok /\ ev.r2.ok THEN {"C01", "C06"} ELSE {}
      [] ev.k = "reverse"   -> IF ev.r.ok THEN {"C12"} ELSE {}
      [] ev.k = "share"     -> IF ev.r.ok THEN {"C05"} ELSE {}
      [] ev.k = "maxspread" -> IF ev.ms.some /\ (ev.r.ok \/ IsSpreadReject(ev.r)) THEN {"C10"} ELSE {}
      [] ev.k = "slip"      -> IF ev.t.some /\ (ev.r.ok \/ IsSlippageReject(ev.r)) THEN {"C15"} ELSE {}
      [] ev.k = "arith"     -> {"C08"}

Init == l = 1 /\ app = [p \in PIDS |-> <<>>]

Step == /\ l <= Len(Rec)
        /\ Check(Rec[l])
        /\ app' = [p \in PIDS |-> IF p \in Applies(Rec[l]) THEN Append(app[p], l) ELSE app[p]]
        /\ l' = l + 1
        /\ IF l = Len(Rec) THEN PrintT(<<"DONE", Len(Rec), app'>>) ELSE TRUE

Spec == Init /\ [][Step]_vars
=============================================================================

---------------------------- MODULE ArithLemmas ----------------------------
(***************************************************************************)
(* Unbounded arithmetic lemmas behind the function-level clauses, for ALL  *)
(* naturals and ALL fixed-point scales D >= 1 (TLAPS).  They are stated    *)
(* over TLA+ integers with \div; Fixed/Formulas instantiate the same       *)
(* expressions (NDiv <- \div) on their success paths.                      *)
(***************************************************************************)
EXTENDS Integers, TLAPS

LEMMA DivBounds ==
    ASSUME NEW a \in Nat, NEW b \in Nat, b > 0
    PROVE  /\ a \div b \in Nat
           /\ b * (a \div b) <= a
           /\ a < b * ((a \div b) + 1)
  BY Z3

(* C01 for an integer-floor constant-product swap: n = floor(y*a/(x+a)) never lowers the product *)
THEOREM FloorSwapKeepsProduct ==
    ASSUME NEW x \in Nat, NEW y \in Nat, NEW a \in Nat, x + a > 0,
           NEW n \in Nat, n = (y * a) \div (x + a)
    PROVE  /\ n * (x + a) <= y * a
           /\ (x + a) * (y - n) >= x * y
<1>1. n * (x + a) <= y * a
  <2>1. y * a \in Nat /\ x + a \in Nat /\ x + a > 0
    OBVIOUS
  <2>2. (x + a) * ((y * a) \div (x + a)) <= y * a
    BY <2>1, DivBounds
  <2> QED BY <2>2
<1>2. (x + a) * (y - n) = (x + a) * y - (x + a) * n
  OBVIOUS
<1>3. (x + a) * y = x * y + y * a
  OBVIOUS
<1> QED BY <1>1, <1>2, <1>3

(* C04: refund x = floor(r * floor(a*D/S) / D) is at most the pro-rata share *)
THEOREM RefundNeverMore ==
    ASSUME NEW r \in Nat, NEW a \in Nat, NEW S \in Nat, NEW D \in Nat, S > 0, D > 0,
           NEW q \in Nat, q = (a * D) \div S,
           NEW x \in Nat, x = (r * q) \div D
    PROVE  x * S * D <= r * a * D
<1>a. a * D \in Nat /\ r * q \in Nat
  OBVIOUS
<1>1. S * q <= a * D
  <2>1. S * ((a * D) \div S) <= a * D
    BY <1>a, DivBounds
  <2> QED BY <2>1
<1>2. D * x <= r * q
  <2>1. D * ((r * q) \div D) <= r * q
    BY <1>a, DivBounds
  <2> QED BY <2>1
<1>3. x * S * D = S * (D * x)
  OBVIOUS
<1>4. S * (D * x) <= S * (r * q)
  BY <1>2
<1>5. S * (r * q) = r * (S * q)
  OBVIOUS
<1>6. r * (S * q) <= r * (a * D)
  BY <1>1
<1> QED BY <1>3, <1>4, <1>5, <1>6

(* C05: the minted share m = min(floor(d0*S/r0), floor(d1*S/r1)) is at most either ratio *)
THEOREM ShareNeverMore ==
    ASSUME NEW S \in Nat, NEW d0 \in Nat, NEW d1 \in Nat, NEW r0 \in Nat, NEW r1 \in Nat, r0 > 0, r1 > 0,
           NEW s0 \in Nat, s0 = (d0 * S) \div r0,
           NEW s1 \in Nat, s1 = (d1 * S) \div r1,
           NEW m \in Nat, m = IF s0 <= s1 THEN s0 ELSE s1
    PROVE  /\ m * r0 <= d0 * S
           /\ m * r1 <= d1 * S
<1>a. d0 * S \in Nat /\ d1 * S \in Nat
  OBVIOUS
<1>1. r0 * s0 <= d0 * S
  <2>1. r0 * ((d0 * S) \div r0) <= d0 * S
    BY <1>a, DivBounds
  <2> QED BY <2>1
<1>2. r1 * s1 <= d1 * S
  <2>1. r1 * ((d1 * S) \div r1) <= d1 * S
    BY <1>a, DivBounds
  <2> QED BY <2>1
<1>3. m <= s0 /\ m <= s1
  OBVIOUS
<1>4. m * r0 <= s0 * r0
  BY <1>3
<1>5. m * r1 <= s1 * r1
  BY <1>3
<1> QED BY <1>1, <1>2, <1>4, <1>5

LEMMA LtLeTrans ==
    ASSUME NEW a \in Int, NEW b \in Int, NEW c \in Int, a < b, b <= c
    PROVE  a < c
  OBVIOUS

LEMMA MulMono ==
    ASSUME NEW A \in Nat, NEW B \in Nat, NEW C \in Nat, NEW E \in Nat, A >= B, C >= E
    PROVE  A * C >= B * E
<1>1. A * C >= B * C
  OBVIOUS
<1>2. B * C >= B * E
  OBVIOUS
<1> QED BY <1>1, <1>2

(* C04 lower bound: the refund is at most r/D + 1 below the pro-rata share *)
THEOREM RefundAtMostDustLess ==
    ASSUME NEW r \in Nat, NEW a \in Nat, NEW S \in Nat, NEW D \in Nat, S > 0, D > 0,
           NEW q \in Nat, q = (a * D) \div S,
           NEW x \in Nat, x = (r * q) \div D
    PROVE  (x + 1) * S * D + r * S > r * a * D
<1>a. a * D \in Nat /\ r * q \in Nat
  OBVIOUS
<1>1. a * D < S * (q + 1)
  <2>1. a * D < S * (((a * D) \div S) + 1)
    BY <1>a, DivBounds
  <2> QED BY <2>1
<1>2. r * q < D * (x + 1)
  <2>1. r * q < D * (((r * q) \div D) + 1)
    BY <1>a, DivBounds
  <2> QED BY <2>1
<1>3. r * (a * D) <= r * (S * (q + 1))
  BY <1>1
<1>4. r * (S * (q + 1)) = S * (r * q) + r * S
  OBVIOUS
<1>5. r * q + 1 <= D * (x + 1)
  BY <1>2
<1>6. S * (r * q + 1) <= S * (D * (x + 1))
  BY <1>5
<1>7. S * (r * q + 1) = S * (r * q) + S
  OBVIOUS
<1>8. S * (D * (x + 1)) = (x + 1) * S * D
  OBVIOUS
<1>9. r * a * D = r * (a * D)
  OBVIOUS
<1>10. r * a * D <= S * (r * q) + r * S
  BY <1>3, <1>4, <1>9
<1>11. S * (r * q) + S <= (x + 1) * S * D
  BY <1>6, <1>7, <1>8
<1> QED BY <1>10, <1>11

(* C03 on a provision: m*r_i <= d_i*S for both i  =>  (r0+d0)(r1+d1) S^2 >= r0 r1 (S+m)^2 *)
THEOREM ProvideKeepsShareValue ==
    ASSUME NEW S \in Nat, NEW m \in Nat, NEW d0 \in Nat, NEW d1 \in Nat, NEW r0 \in Nat, NEW r1 \in Nat,
           m * r0 <= d0 * S, m * r1 <= d1 * S
    PROVE  ((r0 + d0) * S) * ((r1 + d1) * S) >= (r0 * (S + m)) * (r1 * (S + m))
<1>1. (r0 + d0) * S >= r0 * (S + m)
  <2>1. (r0 + d0) * S = r0 * S + d0 * S
    OBVIOUS
  <2>2. r0 * (S + m) = r0 * S + m * r0
    OBVIOUS
  <2> QED BY <2>1, <2>2
<1>2. (r1 + d1) * S >= r1 * (S + m)
  <2>1. (r1 + d1) * S = r1 * S + d1 * S
    OBVIOUS
  <2>2. r1 * (S + m) = r1 * S + m * r1
    OBVIOUS
  <2> QED BY <2>1, <2>2
<1>3. (r0 + d0) * S \in Nat /\ r0 * (S + m) \in Nat /\ (r1 + d1) * S \in Nat /\ r1 * (S + m) \in Nat
  OBVIOUS
<1> QED BY <1>1, <1>2, <1>3, MulMono

(* C03 on a withdrawal: x_i*S <= r_i*a, x_i <= r_i, a <= S  =>  (r0-x0)(r1-x1) S^2 >= r0 r1 (S-a)^2 *)
THEOREM WithdrawKeepsShareValue ==
    ASSUME NEW S \in Nat, NEW a \in Nat, NEW x0 \in Nat, NEW x1 \in Nat, NEW r0 \in Nat, NEW r1 \in Nat,
           a <= S, x0 <= r0, x1 <= r1, x0 * S <= r0 * a, x1 * S <= r1 * a
    PROVE  ((r0 - x0) * S) * ((r1 - x1) * S) >= (r0 * (S - a)) * (r1 * (S - a))
<1>1. (r0 - x0) * S >= r0 * (S - a)
  <2>1. (r0 - x0) * S = r0 * S - x0 * S
    OBVIOUS
  <2>2. r0 * (S - a) = r0 * S - r0 * a
    OBVIOUS
  <2> QED BY <2>1, <2>2
<1>2. (r1 - x1) * S >= r1 * (S - a)
  <2>1. (r1 - x1) * S = r1 * S - x1 * S
    OBVIOUS
  <2>2. r1 * (S - a) = r1 * S - r1 * a
    OBVIOUS
  <2> QED BY <2>1, <2>2
<1>3. (r0 - x0) * S \in Nat /\ r0 * (S - a) \in Nat /\ (r1 - x1) * S \in Nat /\ r1 * (S - a) \in Nat
  <2>1. r0 - x0 \in Nat /\ r1 - x1 \in Nat /\ S - a \in Nat
    OBVIOUS
  <2> QED BY <2>1
<1> QED BY <1>1, <1>2, <1>3, MulMono

(* compute_swap's gross output g = floor((y*D - floor(x*y*D/(x+a)))/D) overshoots y*a/(x+a) by less than 1/D *)
THEOREM GrossUpperBound ==
    ASSUME NEW x \in Nat, NEW y \in Nat, NEW a \in Nat, NEW D \in Nat, D > 0, x + a > 0,
           NEW K \in Nat, K = (x * y * D) \div (x + a), K <= y * D,
           NEW g \in Nat, g = (y * D - K) \div D
    PROVE  (x + a) * (g * D) < y * a * D + (x + a)
<1>a. x * y * D \in Nat /\ y * D - K \in Nat /\ x + a \in Nat
  OBVIOUS
<1>1. x * y * D < (x + a) * (K + 1)
  <2>1. x * y * D < (x + a) * (((x * y * D) \div (x + a)) + 1)
    BY <1>a, DivBounds
  <2> QED BY <2>1
<1>2. D * g <= y * D - K
  <2>1. D * ((y * D - K) \div D) <= y * D - K
    BY <1>a, DivBounds
  <2> QED BY <2>1
<1>3. (x + a) * (D * g) <= (x + a) * (y * D - K)
  BY <1>2
<1>4. (x + a) * (y * D - K) = (x + a) * (y * D) - (x + a) * K
  OBVIOUS
<1>5. (x + a) * (K + 1) = (x + a) * K + (x + a)
  OBVIOUS
<1>6. (x + a) * (y * D) = x * y * D + y * a * D
  OBVIOUS
<1>7. g * D = D * g
  OBVIOUS
<1>8. x * y * D < (x + a) * K + (x + a)
  BY <1>1, <1>5
<1>9. (x + a) * (D * g) <= (x + a) * (y * D) - (x + a) * K
  BY <1>3, <1>4
<1>10. (x + a) * (D * g) < y * a * D + (x + a)
  BY <1>8, <1>9, <1>6
<1> QED BY <1>10, <1>7

(* if b*t <= n then t <= n \div b *)
LEMMA DivLower ==
    ASSUME NEW n \in Nat, NEW b \in Nat, b > 0, NEW t \in Nat, b * t <= n
    PROVE  t <= n \div b
<1>1. n < b * ((n \div b) + 1) /\ n \div b \in Nat
  BY DivBounds
<1>2. SUFFICES ASSUME t >= (n \div b) + 1 PROVE FALSE
  BY <1>1
<1>3. b * t >= b * ((n \div b) + 1)
  BY <1>1, <1>2
<1>4. b * t <= n
  OBVIOUS
<1> QED BY <1>1, <1>3, <1>4

(* if n < b*(t+1) then n \div b <= t *)
LEMMA DivUpper ==
    ASSUME NEW n \in Nat, NEW b \in Nat, b > 0, NEW t \in Nat, n < b * (t + 1)
    PROVE  n \div b <= t
<1>1. b * (n \div b) <= n /\ n \div b \in Nat
  BY DivBounds
<1>2. CASE n \div b <= t
  BY <1>2
<1>3. CASE n \div b >= t + 1
  <2>1. b * (n \div b) >= b * (t + 1)
    BY <1>1, <1>3
  <2>2. b * (t + 1) <= n
    BY <1>1, <2>1
  <2> QED BY <2>2
<1> QED BY <1>1, <1>2, <1>3

(***************************************************************************)
(* KF-1 is exact: write x*y = Q*(x+a) + m with 0 <= m < x+a.  Outside the  *)
(* window (m = 0, or m*D >= x+a) compute_swap's gross output never exceeds *)
(* y*a/(x+a); so every C01 violation of the formula lies inside the window *)
(* 0 < m*D < x+a.                                                          *)
(***************************************************************************)
THEOREM GrossExactOutsideWindow ==
    ASSUME NEW x \in Nat, NEW y \in Nat, NEW a \in Nat, NEW D \in Nat, D > 0, x + a > 0,
           NEW Q \in Nat, NEW m \in Nat, x * y = Q * (x + a) + m, m < x + a,
           m = 0 \/ m * D >= x + a,
           NEW K \in Nat, K = (x * y * D) \div (x + a), K <= y * D,
           NEW g \in Nat, g = (y * D - K) \div D
    PROVE  g * (x + a) <= y * a
<1>a. x * y * D \in Nat /\ x + a \in Nat /\ y * D - K \in Nat
  OBVIOUS
<1>b. x * y * D = (Q * D) * (x + a) + m * D
  <2>1. x * y * D = (Q * (x + a) + m) * D
    OBVIOUS
  <2>2. (Q * (x + a) + m) * D = (Q * D) * (x + a) + m * D
    OBVIOUS
  <2> QED BY <2>1, <2>2
<1>c. y >= Q
  <2>1. Q * (x + a) <= x * y
    OBVIOUS
  <2>2. x * y <= y * (x + a)
    OBVIOUS
  <2>3. CASE Q <= y
    BY <2>3
  <2>4. CASE Q >= y + 1
    <3>1. Q * (x + a) >= (y + 1) * (x + a)
      <4>1. Q \in Nat /\ y + 1 \in Nat /\ x + a \in Nat /\ Q >= y + 1 /\ x + a >= x + a
        BY <2>4
      <4> QED BY <4>1, MulMono
    <3>2. (y + 1) * (x + a) = y * (x + a) + (x + a)
      OBVIOUS
    <3>3. y * (x + a) + (x + a) <= y * (x + a)
      BY <2>1, <2>2, <3>1, <3>2
    <3> QED BY <3>3
  <2> QED BY <2>3, <2>4
<1>d. (y - Q) * (x + a) = y * a + m
  <2>1. (y - Q) * (x + a) = y * (x + a) - Q * (x + a)
    OBVIOUS
  <2>2. y * (x + a) = x * y + y * a
    OBVIOUS
  <2> QED BY <2>1, <2>2
<1>1. CASE m = 0
  <2>1. K >= Q * D
    <3>1. (x + a) * (Q * D) <= x * y * D
      BY <1>b, <1>1
    <3>2. Q * D \in Nat
      OBVIOUS
    <3> QED BY <1>a, <3>1, <3>2, DivLower
  <2>2. y * D - K <= (y - Q) * D
    <3>1. (y - Q) * D = y * D - Q * D
      OBVIOUS
    <3> QED BY <2>1, <3>1
  <2>3. g <= y - Q
    <3>1. y * D - K < D * ((y - Q) + 1)
      <4>1. D * ((y - Q) + 1) = (y - Q) * D + D
        OBVIOUS
      <4> QED BY <2>2, <4>1
    <3>2. y - Q \in Nat
      BY <1>c
    <3> QED BY <1>a, <3>1, <3>2, DivUpper
  <2>4. g * (x + a) <= (y - Q) * (x + a)
    BY <2>3, <1>c
  <2> QED BY <2>4, <1>d, <1>1
<1>2. CASE m * D >= x + a
  <2>1. K >= Q * D + 1
    <3>1. (x + a) * (Q * D + 1) = (Q * D) * (x + a) + (x + a)
      OBVIOUS
    <3>2. (x + a) * (Q * D + 1) <= x * y * D
      BY <1>b, <1>2, <3>1
    <3>3. Q * D + 1 \in Nat
      OBVIOUS
    <3> QED BY <1>a, <3>2, <3>3, DivLower
  <2>2. y - Q >= 1
    <3>1. SUFFICES ASSUME y = Q PROVE FALSE
      BY <1>c
    <3>2. K >= y * D + 1
      BY <2>1, <3>1
    <3> QED BY <3>2
  <2>3. y * D - K < D * (((y - Q) - 1) + 1)
    <3>1. D * (((y - Q) - 1) + 1) = y * D - Q * D
      OBVIOUS
    <3> QED BY <2>1, <3>1
  <2>4. g <= (y - Q) - 1
    <3>1. (y - Q) - 1 \in Nat
      BY <2>2, <1>c
    <3> QED BY <1>a, <2>3, <3>1, DivUpper
  <2>5. g * (x + a) <= ((y - Q) - 1) * (x + a)
    BY <2>4, <2>2, <1>c
  <2>6. ((y - Q) - 1) * (x + a) = (y - Q) * (x + a) - (x + a)
    OBVIOUS
  <2> QED BY <2>5, <2>6, <1>d
<1> QED BY <1>1, <1>2

(* C05 lower bound: the minted share is less than one unit below the smaller ratio *)
THEOREM ShareAtMostOneLess ==
    ASSUME NEW S \in Nat, NEW d0 \in Nat, NEW d1 \in Nat, NEW r0 \in Nat, NEW r1 \in Nat, r0 > 0, r1 > 0,
           NEW s0 \in Nat, s0 = (d0 * S) \div r0,
           NEW s1 \in Nat, s1 = (d1 * S) \div r1,
           NEW m \in Nat, m = IF s0 <= s1 THEN s0 ELSE s1
    PROVE  \/ (m + 1) * r0 > d0 * S
           \/ (m + 1) * r1 > d1 * S
<1>a. d0 * S \in Nat /\ d1 * S \in Nat
  OBVIOUS
<1>1. d0 * S < r0 * (s0 + 1)
  <2>1. d0 * S < r0 * (((d0 * S) \div r0) + 1)
    BY <1>a, DivBounds
  <2> QED BY <2>1
<1>2. d1 * S < r1 * (s1 + 1)
  <2>1. d1 * S < r1 * (((d1 * S) \div r1) + 1)
    BY <1>a, DivBounds
  <2> QED BY <2>1
<1>3. CASE s0 <= s1
  <2>1. m = s0
    BY <1>3
  <2>2. (m + 1) * r0 = r0 * (s0 + 1)
    BY <2>1
  <2> QED BY <1>1, <2>2
<1>4. CASE ~(s0 <= s1)
  <2>1. m = s1
    BY <1>4
  <2>2. (m + 1) * r1 = r1 * (s1 + 1)
    BY <2>1
  <2> QED BY <1>2, <2>2
<1> QED BY <1>3, <1>4

(* C06: the commission k = floor(g*c/D) taken from the gross output g satisfies k*D <= c*(n+k) < (k+1)*D with n = g - k *)
THEOREM CommissionIdentity ==
    ASSUME NEW g \in Nat, NEW c \in Nat, NEW D \in Nat, D > 0,
           NEW k \in Nat, k = (g * c) \div D, k <= g,
           NEW n \in Nat, n = g - k
    PROVE  /\ k * D <= c * (n + k)
           /\ c * (n + k) < (k + 1) * D
<1>a. g * c \in Nat
  OBVIOUS
<1>1. D * k <= g * c /\ g * c < D * (k + 1)
  <2>1. D * ((g * c) \div D) <= g * c /\ g * c < D * (((g * c) \div D) + 1)
    BY <1>a, DivBounds
  <2> QED BY <2>1
<1>2. n + k = g
  OBVIOUS
<1>3. c * (n + k) = g * c
  BY <1>2
<1>4. k * D = D * k /\ (k + 1) * D = D * (k + 1)
  OBVIOUS
<1> QED BY <1>1, <1>3, <1>4

(***************************************************************************)
(* C15: if the slippage guard lets a provision through on one side         *)
(*   A = floor(floor(d0*D/d1) * w / D) <= B = floor(r0*D/r1),  w = D - t   *)
(* then (d0/d1)(1-t) < r0/r1 + 2/D, i.e. d0*w*r1 < r0*d1*D + 2*d1*r1.      *)
(***************************************************************************)
THEOREM SlippageGuardSound ==
    ASSUME NEW d0 \in Nat, NEW d1 \in Nat, NEW r0 \in Nat, NEW r1 \in Nat, NEW D \in Nat, NEW w \in Nat,
           d1 > 0, r1 > 0, D > 0, w <= D,
           NEW q \in Nat, q = (d0 * D) \div d1,
           NEW A \in Nat, A = (q * w) \div D,
           NEW B \in Nat, B = (r0 * D) \div r1,
           A <= B
    PROVE  d0 * w * r1 < r0 * d1 * D + 2 * (d1 * r1)
<1>a. d0 * D \in Nat /\ q * w \in Nat /\ r0 * D \in Nat
  OBVIOUS
<1>1. d0 * D < d1 * (q + 1)
  <2>1. d0 * D < d1 * (((d0 * D) \div d1) + 1)
    BY <1>a, DivBounds
  <2> QED BY <2>1
<1>2. q * w < D * (A + 1)
  <2>1. q * w < D * (((q * w) \div D) + 1)
    BY <1>a, DivBounds
  <2> QED BY <2>1
<1>3. r1 * B <= r0 * D
  <2>1. r1 * ((r0 * D) \div r1) <= r0 * D
    BY <1>a, DivBounds
  <2> QED BY <2>1
\* chain, everything multiplied out over the common factor d1*r1*D
<1>5. CASE w = 0
  <2>1. d0 * w * r1 = 0
    BY <1>5
  <2>2. d1 * r1 >= 1
    OBVIOUS
  <2> QED BY <2>1, <2>2
<1>6. CASE w > 0
  <2>1. (d0 * D) * w < (d1 * (q + 1)) * w
    <3>1. d0 * D + 1 <= d1 * (q + 1)
      BY <1>1
    <3>2. d0 * D + 1 \in Nat /\ d1 * (q + 1) \in Nat /\ w \in Nat /\ d1 * (q + 1) >= d0 * D + 1 /\ w >= w
      BY <3>1
    <3>3. (d1 * (q + 1)) * w >= (d0 * D + 1) * w
      BY <3>2, MulMono
    <3>4. (d0 * D + 1) * w = (d0 * D) * w + w
      OBVIOUS
    <3> QED BY <3>3, <3>4, <1>6
  <2>2. (d1 * (q + 1)) * w = d1 * (q * w) + d1 * w
    OBVIOUS
  <2>3. q * w + 1 <= D * (A + 1)
    BY <1>2
  <2>4. d1 * (q * w + 1) <= d1 * (D * (A + 1))
    BY <2>3
  <2>5. d1 * (q * w + 1) = d1 * (q * w) + d1
    OBVIOUS
  <2>6. d1 * (D * (A + 1)) = (d1 * D) * A + d1 * D
    OBVIOUS
  <2>7. (d1 * D) * A <= (d1 * D) * B
    OBVIOUS
  \* so far: d0*D*w < (d1*D)*B + d1*D - d1 + d1*w
  <2>8. (d0 * D) * w < (d1 * D) * B + d1 * D + d1 * w
    BY <2>1, <2>2, <2>4, <2>5, <2>6, <2>7
  \* multiply by r1 and use r1*B <= r0*D
  <2>9. ((d0 * D) * w) * r1 < ((d1 * D) * B + d1 * D + d1 * w) * r1
    <3>1. (d0 * D) * w + 1 <= (d1 * D) * B + d1 * D + d1 * w
      BY <2>8
    <3>2. ((d0 * D) * w + 1) * r1 <= ((d1 * D) * B + d1 * D + d1 * w) * r1
      <4>1. (d1 * D) * B + d1 * D + d1 * w \in Nat /\ (d0 * D) * w + 1 \in Nat /\ r1 \in Nat
            /\ (d1 * D) * B + d1 * D + d1 * w >= (d0 * D) * w + 1 /\ r1 >= r1
        BY <3>1
      <4>2. ((d1 * D) * B + d1 * D + d1 * w) * r1 >= ((d0 * D) * w + 1) * r1
        BY <4>1, MulMono
      <4> QED BY <4>2
    <3>3. ((d0 * D) * w + 1) * r1 = ((d0 * D) * w) * r1 + r1
      OBVIOUS
    <3> QED BY <3>2, <3>3
  <2>10. ((d1 * D) * B + d1 * D + d1 * w) * r1 = (d1 * D) * (r1 * B) + (d1 * D) * r1 + (d1 * w) * r1
    OBVIOUS
  <2>11. (d1 * D) * (r1 * B) <= (d1 * D) * (r0 * D)
    BY <1>3
  <2>12. (d1 * w) * r1 <= (d1 * D) * r1
    <3>1. d1 * w <= d1 * D
      OBVIOUS
    <3> QED BY <3>1
  <2>13. ((d0 * D) * w) * r1 < (d1 * D) * (r0 * D) + 2 * ((d1 * D) * r1)
    <3> DEFINE T == ((d0 * D) * w) * r1
               X == (d1 * D) * (r1 * B) + (d1 * D) * r1 + (d1 * w) * r1
               Y == (d1 * D) * (r0 * D) + (d1 * D) * r1 + (d1 * D) * r1
               Z == (d1 * D) * (r0 * D) + 2 * ((d1 * D) * r1)
    <3>1. T < X
      BY <2>9, <2>10
    <3>2. X <= Y
      BY <2>11, <2>12
    <3>3. Y = Z
      OBVIOUS
    <3>4. T \in Nat /\ X \in Nat /\ Y \in Nat /\ Z \in Nat
      OBVIOUS
    <3>5. T < Y
      <4>1. T \in Int /\ X \in Int /\ Y \in Int
        BY <3>4
      <4> HIDE DEF T, X, Y
      <4> QED BY <3>1, <3>2, <4>1, LtLeTrans
    <3>6. T < Z
      BY <3>5, <3>3
    <3> QED BY <3>6
  \* divide the common factor D out
  <2>14. ((d0 * D) * w) * r1 = D * (d0 * w * r1)
    OBVIOUS
  <2>15. (d1 * D) * (r0 * D) + 2 * ((d1 * D) * r1) = D * (r0 * d1 * D + 2 * (d1 * r1))
    OBVIOUS
  <2>16. D * (d0 * w * r1) < D * (r0 * d1 * D + 2 * (d1 * r1))
    BY <2>13, <2>14, <2>15
  <2>17. d0 * w * r1 \in Nat /\ r0 * d1 * D + 2 * (d1 * r1) \in Nat
    OBVIOUS
  <2> QED
    <3>1. SUFFICES ASSUME d0 * w * r1 >= r0 * d1 * D + 2 * (d1 * r1) PROVE FALSE
      BY <2>17
    <3>2. D * (d0 * w * r1) >= D * (r0 * d1 * D + 2 * (d1 * r1))
      BY <3>1, <2>17
    <3> QED BY <3>2, <2>16
<1> QED BY <1>5, <1>6
=============================================================================

---------------------------- MODULE GuardLemmas ----------------------------
(***************************************************************************)
(* Unbounded lemmas behind the guard and quote clauses (C10, C12), for ALL *)
(* naturals and ALL fixed-point scales D >= 1 (TLAPS).  Same conventions   *)
(* as ArithLemmas: expressions over TLA+ integers with \div, which are the *)
(* success paths of Formulas!AssertMaxSpread and Formulas!ComputeOfferAmount*)
(* with NDiv <- \div.                                                      *)
(***************************************************************************)
EXTENDS Integers, TLAPS

LEMMA DivBounds ==
    ASSUME NEW a \in Nat, NEW b \in Nat, b > 0
    PROVE  /\ a \div b \in Nat
           /\ b * (a \div b) <= a
           /\ a < b * ((a \div b) + 1)
  BY Z3

LEMMA MulMonoR ==
    ASSUME NEW A \in Nat, NEW B \in Nat, NEW C \in Nat, A <= B
    PROVE  A * C <= B * C
  OBVIOUS

LEMMA MulMonoL ==
    ASSUME NEW A \in Nat, NEW B \in Nat, NEW C \in Nat, A <= B
    PROVE  C * A <= C * B
  OBVIOUS

LEMMA MulMonoInt ==
    ASSUME NEW q \in Nat, NEW A \in Int, NEW B \in Int, A <= B
    PROVE  q * A <= q * B
<1>1. B - A \in Nat
  OBVIOUS
<1>2. q * (B - A) \in Nat
  BY <1>1
<1>3. q * (B - A) = q * B - q * A
  OBVIOUS
<1> QED BY <1>2, <1>3

(***************************************************************************)
(* C10, belief-price branch.                                               *)
(*   E = floor(on*D/bp)             (expected return, UintDivDec)          *)
(*   R = floor((E - rn)*D/E)        (shortfall ratio, DecFromRatio)        *)
(* accepted (R <= ms, rn < E):   (E - rn)*D < (ms+1)*E  and  E*bp > on*D - bp *)
(***************************************************************************)
THEOREM BeliefAcceptedWithinLimit ==
    ASSUME NEW on \in Nat, NEW bp \in Nat, NEW D \in Nat, NEW ms \in Nat, NEW rn \in Nat,
           bp > 0, D > 0,
           NEW E \in Nat, E = (on * D) \div bp,
           rn < E,
           NEW R \in Nat, R = ((E - rn) * D) \div E,
           R <= ms
    PROVE  /\ (E - rn) * D < (ms + 1) * E
           /\ on * D < bp * (E + 1)
<1>a. on * D \in Nat /\ E - rn \in Nat /\ (E - rn) * D \in Nat /\ E > 0
  OBVIOUS
<1>1. on * D < bp * (((on * D) \div bp) + 1)
  BY <1>a, DivBounds
<1>2. (E - rn) * D < E * ((((E - rn) * D) \div E) + 1)
  BY <1>a, DivBounds
<1>3. (E - rn) * D < E * (R + 1)
  BY <1>2
<1>4. E * (R + 1) <= E * (ms + 1)
  <2>1. R + 1 \in Nat /\ ms + 1 \in Nat /\ R + 1 <= ms + 1
    OBVIOUS
  <2> QED BY <2>1, MulMonoL
<1>5. E * (ms + 1) = (ms + 1) * E
  OBVIOUS
<1> QED BY <1>1, <1>3, <1>4, <1>5

(* rejected (R >= ms+1): the return is truly below (offer/p)(1 - s):  rn*bp < on*(D - ms)  [times D] *)
THEOREM BeliefRejectedOnlyBeyondLimit ==
    ASSUME NEW on \in Nat, NEW bp \in Nat, NEW D \in Nat, NEW ms \in Nat, NEW rn \in Nat,
           bp > 0, D > 0,
           NEW E \in Nat, E = (on * D) \div bp,
           rn < E,
           NEW R \in Nat, R = ((E - rn) * D) \div E,
           R >= ms + 1
    PROVE  /\ rn * D + ms * E < E * D
           /\ bp * E <= on * D
<1>a. on * D \in Nat /\ E - rn \in Nat /\ (E - rn) * D \in Nat /\ E > 0
  OBVIOUS
<1>1. bp * ((on * D) \div bp) <= on * D
  BY <1>a, DivBounds
<1>2. E * (((E - rn) * D) \div E) <= (E - rn) * D
  BY <1>a, DivBounds
<1>3. E * R <= (E - rn) * D
  BY <1>2
<1>4. E * (ms + 1) <= E * R
  <2>1. ms + 1 \in Nat /\ ms + 1 <= R
    OBVIOUS
  <2> QED BY <2>1, MulMonoL
<1>5. E * (ms + 1) = ms * E + E
  OBVIOUS
<1>6. (E - rn) * D = E * D - rn * D
  OBVIOUS
<1>7. ms * E + E <= E * D - rn * D
  BY <1>3, <1>4, <1>5, <1>6
<1> QED BY <1>1, <1>7, <1>a

(***************************************************************************)
(* C10, spread-only branch:  R = floor(sn*D/(rn+sn))                        *)
(***************************************************************************)
THEOREM SpreadAcceptedWithinLimit ==
    ASSUME NEW sn \in Nat, NEW rn \in Nat, NEW D \in Nat, NEW ms \in Nat,
           D > 0, rn + sn > 0,
           NEW R \in Nat, R = (sn * D) \div (rn + sn),
           R <= ms
    PROVE  sn * D < (ms + 1) * (rn + sn)
<1>a. sn * D \in Nat /\ rn + sn \in Nat
  OBVIOUS
<1>1. sn * D < (rn + sn) * (((sn * D) \div (rn + sn)) + 1)
  BY <1>a, DivBounds
<1>2. sn * D < (rn + sn) * (R + 1)
  BY <1>1
<1>3. (rn + sn) * (R + 1) <= (rn + sn) * (ms + 1)
  <2>1. R + 1 \in Nat /\ ms + 1 \in Nat /\ R + 1 <= ms + 1
    OBVIOUS
  <2> QED BY <2>1, <1>a, MulMonoL
<1>4. (rn + sn) * (ms + 1) = (ms + 1) * (rn + sn)
  OBVIOUS
<1> QED BY <1>2, <1>3, <1>4

THEOREM SpreadRejectedOnlyBeyondLimit ==
    ASSUME NEW sn \in Nat, NEW rn \in Nat, NEW D \in Nat, NEW ms \in Nat,
           D > 0, rn + sn > 0,
           NEW R \in Nat, R = (sn * D) \div (rn + sn),
           R >= ms + 1
    PROVE  sn * D > ms * (rn + sn)
<1>a. sn * D \in Nat /\ rn + sn \in Nat
  OBVIOUS
<1>1. (rn + sn) * ((sn * D) \div (rn + sn)) <= sn * D
  BY <1>a, DivBounds
<1>2. (rn + sn) * R <= sn * D
  BY <1>1
<1>3. (rn + sn) * (ms + 1) <= (rn + sn) * R
  <2>1. ms + 1 \in Nat /\ ms + 1 <= R
    OBVIOUS
  <2> QED BY <2>1, <1>a, MulMonoL
<1>4. (rn + sn) * (ms + 1) = ms * (rn + sn) + (rn + sn)
  OBVIOUS
<1> QED BY <1>2, <1>3, <1>4

(***************************************************************************)
(* C12: the reverse quote never exceeds the closed form.                   *)
(*   inv = floor(D*D/omc)     (1/(1-c) as a decimal, omc = D - c > 0)      *)
(*   bc  = floor(b*inv/D)     (ask before commission)                      *)
(*   den = y - bc > 0                                                      *)
(*   q   = floor(x*y/den)     (offer + x)                                  *)
(* closed form  x*y/(y - b/(1-c))  =  x*y*omc/(y*omc - b*D):               *)
(*   q*(y*omc - b*D) <= x*y*omc                                            *)
(***************************************************************************)
THEOREM ReverseNeverAboveClosedForm ==
    ASSUME NEW x \in Nat, NEW y \in Nat, NEW b \in Nat, NEW D \in Nat, NEW omc \in Nat,
           D > 0, omc > 0,
           NEW inv \in Nat, inv = (D * D) \div omc,
           NEW bc \in Nat, bc = (b * inv) \div D,
           bc < y,
           NEW q \in Nat, q = (x * y) \div (y - bc)
    PROVE  q * (y * omc - b * D) <= (x * y) * omc
<1>a. D * D \in Nat /\ b * inv \in Nat /\ x * y \in Nat /\ y - bc \in Nat /\ y - bc > 0
  OBVIOUS
<1>1. omc * inv <= D * D
  <2>1. omc * ((D * D) \div omc) <= D * D
    BY <1>a, DivBounds
  <2> QED BY <2>1
<1>2. D * bc <= b * inv
  <2>1. D * ((b * inv) \div D) <= b * inv
    BY <1>a, DivBounds
  <2> QED BY <2>1
<1>3. (y - bc) * q <= x * y
  <2>1. (y - bc) * ((x * y) \div (y - bc)) <= x * y
    BY <1>a, DivBounds
  <2> QED BY <2>1
\* bc*omc <= b*D   (multiply <1>2 by omc, <1>1 by b, cancel D)
<1>4. (D * bc) * omc <= (b * inv) * omc
  <2>1. D * bc \in Nat /\ b * inv \in Nat /\ omc \in Nat /\ D * bc <= b * inv
    BY <1>2
  <2> QED BY <2>1, MulMonoR
<1>5. (b * inv) * omc = b * (omc * inv)
  OBVIOUS
<1>6. b * (omc * inv) <= b * (D * D)
  <2>1. omc * inv \in Nat
    OBVIOUS
  <2> QED BY <1>1, <1>a, <2>1, MulMonoL
<1>7. D * (bc * omc) <= D * (b * D)
  <2>1. (D * bc) * omc = D * (bc * omc)
    OBVIOUS
  <2>2. b * (D * D) = D * (b * D)
    OBVIOUS
  <2> QED BY <1>4, <1>5, <1>6, <2>1, <2>2
<1>8. bc * omc <= b * D
  <2>1. bc * omc \in Nat /\ b * D \in Nat
    OBVIOUS
  <2>2. CASE bc * omc > b * D
    <3>1. bc * omc >= b * D + 1
      BY <2>1, <2>2
    <3>2. D * (bc * omc) >= D * (b * D + 1)
      <4>1. b * D + 1 \in Nat /\ b * D + 1 <= bc * omc
        BY <3>1, <2>1
      <4> QED BY <4>1, <2>1, MulMonoL
    <3>3. D * (b * D + 1) = D * (b * D) + D
      OBVIOUS
    <3> QED BY <1>7, <3>2, <3>3
  <2> QED BY <2>1, <2>2
\* y*omc - b*D <= (y - bc)*omc
<1>9. y * omc - b * D <= (y - bc) * omc
  <2>1. (y - bc) * omc = y * omc - bc * omc
    OBVIOUS
  <2> QED BY <1>8, <2>1
<1>10. q * (y * omc - b * D) <= q * ((y - bc) * omc)
  <2>1. y * omc - b * D \in Int /\ (y - bc) * omc \in Int
    OBVIOUS
  <2> QED BY <1>9, <2>1, MulMonoInt
<1>11. q * ((y - bc) * omc) = ((y - bc) * q) * omc
  OBVIOUS
<1>12. ((y - bc) * q) * omc <= (x * y) * omc
  <2>1. (y - bc) * q \in Nat
    BY <1>a
  <2> QED BY <1>3, <1>a, <2>1, MulMonoR
<1> QED BY <1>10, <1>11, <1>12

(***************************************************************************)
(* C12: ... and is below it by at most the rounding of its three           *)
(* truncating steps:  (q+1) * ((y*omc - b*D)*D + (b+D)*omc) > x*y*omc*D,   *)
(* the bound PropsMath!C12_Reverse states.                                 *)
(***************************************************************************)
THEOREM ReverseAtMostRoundingBelow ==
    ASSUME NEW x \in Nat, NEW y \in Nat, NEW b \in Nat, NEW D \in Nat, NEW omc \in Nat,
           D > 0, omc > 0,
           NEW inv \in Nat, inv = (D * D) \div omc,
           NEW bc \in Nat, bc = (b * inv) \div D,
           bc < y,
           NEW q \in Nat, q = (x * y) \div (y - bc)
    PROVE  (q + 1) * ((y * omc - b * D) * D + (b + D) * omc) > ((x * y) * omc) * D
<1>a. D * D \in Nat /\ b * inv \in Nat /\ x * y \in Nat /\ y - bc \in Nat /\ y - bc > 0
  OBVIOUS
<1>1. D * D < omc * (inv + 1)
  <2>1. D * D < omc * (((D * D) \div omc) + 1)
    BY <1>a, DivBounds
  <2> QED BY <2>1
<1>2. b * inv < D * (bc + 1)
  <2>1. b * inv < D * (((b * inv) \div D) + 1)
    BY <1>a, DivBounds
  <2> QED BY <2>1
<1>3. x * y < (y - bc) * (q + 1)
  <2>1. x * y < (y - bc) * (((x * y) \div (y - bc)) + 1)
    BY <1>a, DivBounds
  <2> QED BY <2>1
\* b*(D*D) <= b*(omc*inv) + b*omc
<1>4. b * (D * D) <= b * (omc * (inv + 1))
  <2>1. omc * (inv + 1) \in Nat /\ D * D <= omc * (inv + 1)
    BY <1>1
  <2> QED BY <2>1, <1>a, MulMonoL
<1>5. b * (omc * (inv + 1)) = (b * inv) * omc + b * omc
  OBVIOUS
\* (b*inv)*omc + omc <= (D*bc + D)*omc
<1>6. ((b * inv) + 1) * omc <= (D * (bc + 1)) * omc
  <2>1. b * inv + 1 \in Nat /\ D * (bc + 1) \in Nat /\ b * inv + 1 <= D * (bc + 1)
    BY <1>2, <1>a
  <2> QED BY <2>1, MulMonoR
<1>7. ((b * inv) + 1) * omc = (b * inv) * omc + omc
  OBVIOUS
<1>8. (D * (bc + 1)) * omc = (bc * omc) * D + D * omc
  OBVIOUS
\* bc*omc*D >= b*D*D - b*omc - D*omc + omc
<1>9. b * (D * D) + omc <= (bc * omc) * D + D * omc + b * omc
  BY <1>4, <1>5, <1>6, <1>7, <1>8
<1> DEFINE K == (y * omc - b * D) * D + (b + D) * omc
<1>10. K = (y * omc) * D - b * (D * D) + b * omc + D * omc
  OBVIOUS
<1>11. ((y - bc) * omc) * D = (y * omc) * D - (bc * omc) * D
  OBVIOUS
<1>12. ((y - bc) * omc) * D + omc <= K
  BY <1>9, <1>10, <1>11
<1>13. (q + 1) * (((y - bc) * omc) * D + omc) <= (q + 1) * K
  <2>1. q + 1 \in Nat /\ ((y - bc) * omc) * D + omc \in Int /\ K \in Int
    OBVIOUS
  <2> QED BY <2>1, <1>12, MulMonoInt
<1>14. (q + 1) * (((y - bc) * omc) * D + omc) = ((y - bc) * (q + 1)) * (omc * D) + (q + 1) * omc
  OBVIOUS
<1>15. (x * y + 1) * (omc * D) <= ((y - bc) * (q + 1)) * (omc * D)
  <2>1. x * y + 1 \in Nat /\ (y - bc) * (q + 1) \in Nat /\ omc * D \in Nat /\ x * y + 1 <= (y - bc) * (q + 1)
    BY <1>3, <1>a
  <2> QED BY <2>1, MulMonoR
<1>16. (x * y + 1) * (omc * D) = ((x * y) * omc) * D + omc * D
  OBVIOUS
<1>17. (q + 1) * omc \in Nat /\ omc * D \in Nat
  OBVIOUS
<1>18. (q + 1) * K >= ((x * y) * omc) * D + omc * D
  BY <1>13, <1>14, <1>15, <1>16, <1>17
<1>19. omc * D > 0
  OBVIOUS
<1> QED BY <1>18, <1>19 DEF K
=============================================================================

//! Scenario drivers: they decide the next abstract operation (looking at the live world for
//! magnitudes), execute it through `World::exec`, and write the trace.  All randomness comes from
//! the seed.  Drivers:
//!   random    multi-actor histories over all pair kinds and routes (a fraction deliberately malformed)
//!   matrix    directed cross products for C02 / C09 (asset x named asset x amount x funds) and C14 (entry x caller)
//!   registry  many pairs over denoms with shared prefixes: creation, lookups in both orders, page walks, decimals updates
//!   withdraw  extreme histories followed by injected qualifying withdrawals (C20)

use crate::num::*;
use crate::world::*;
use serde_json::{json, Value};
use std::io::Write;

pub const USERS: [&str; 6] = ["alice", "bob", "carol", "mallory", "owner", "newowner"];

fn nul() -> Value {
    Value::Null
}
fn st(v: u128) -> Value {
    Value::String(v.to_string())
}
fn nat(d: &str) -> Value {
    json!({"native": d})
}
fn tok(t: &str) -> Value {
    json!({"token": t})
}
fn asset(info: &Value, amount: u128) -> Value {
    json!({"info": info, "amount": st(amount)})
}
fn is_native(info: &Value) -> bool {
    info.get("native").is_some()
}
fn id_of(info: &Value) -> String {
    if is_native(info) { info["native"].as_str().unwrap().to_string() } else { info["token"].as_str().unwrap().to_string() }
}

pub struct Trace<'a> {
    pub out: &'a mut dyn Write,
    pub n: usize,
    pub tag: String,
    pub step: usize,
}

impl<'a> Trace<'a> {
    pub fn reset(&mut self, w: &World, setup: &Value) {
        let names: serde_json::Map<String, Value> = w.names.iter().map(|(k, v)| (k.clone(), Value::String(v.clone()))).collect();
        writeln!(
            self.out,
            "{}",
            json!({"k": "reset", "tag": self.tag, "setup": setup, "world": w.project(), "accounts": w.accounts(),
                   "users": w.users, "names": names, "bytes": w.key_bytes(), "h": format!("reset {}", self.tag)})
        )
        .unwrap();
        self.n += 1;
        self.step = 0;
    }
    /// execute and record one operation; returns the result
    pub fn run(&mut self, w: &mut World, op: Value) -> Value {
        let (res, is_q) = w.exec(&op);
        let view = w.view(&op);
        let h = format!("{}#{} {}", self.tag, self.step, op);
        if is_q {
            writeln!(self.out, "{}", json!({"k": "q", "op": view, "ans": res, "h": h, "raw": op})).unwrap();
        } else {
            writeln!(self.out, "{}", json!({"k": "tx", "op": view, "res": res, "post": w.project(), "h": h, "raw": op})).unwrap();
        }
        self.n += 1;
        self.step += 1;
        res
    }
}

// ---------------------------------------------------------------------------------------------
// world templates
// ---------------------------------------------------------------------------------------------
#[derive(Clone)]
pub struct PairSpec {
    pub a: Value,
    pub b: Value,
}

fn std_setup(r: &mut Rng, init: u128, light: bool) -> (Value, Vec<PairSpec>) {
    std_setup_with(r, init, light, false)
}

fn std_setup_with(r: &mut Rng, init: u128, light: bool, first_fee_free: bool) -> (Value, Vec<PairSpec>) {
    let dec = |r: &mut Rng| *r.pick(&[0u64, 6, 6, 8, 18, 18, 3]);
    // contract2 / contract3 are the addresses the two cw20 tokens will get: bank denoms spelled like a
    // token address exercise every place that could confuse the two kinds of asset
    let denoms = json!([{"denom": "ua", "decimals": dec(r)}, {"denom": "ub", "decimals": dec(r)}, {"denom": "uc", "decimals": dec(r)},
                        {"denom": "contract2", "decimals": 6, "register": false}, {"denom": "contract3", "decimals": 6, "register": false}]);
    let tokens = json!([{"name": "tokA", "decimals": dec(r)}, {"name": "tokB", "decimals": dec(r)}]);
    let rates = [nul(), st(0), st(1), st(30_000_000_000_000_000), st(D18 / 2), st(D18 - 1), st(D18), st(3_000_000_000_000_000)];
    let specs = vec![
        PairSpec { a: nat("ua"), b: tok("@tokA") },
        PairSpec { a: tok("@tokA"), b: tok("@tokB") },
        PairSpec { a: nat("ua"), b: nat("ub") },
        PairSpec { a: tok("@tokB"), b: nat("ub") },
    ];
    let mut pairs = vec![];
    for s in specs.iter() {
        let wl = match r.below(3) {
            0 => json!(["alice"]),
            1 => json!(["alice", "bob"]),
            _ => json!(["alice", "bob", "carol"]),
        };
        let (m0, m1) = if r.chance(1, 3) { (r.below(2000) as u128, r.below(2000) as u128) } else { (0, 0) };
        let (a, b) = if r.chance(1, 2) { (s.a.clone(), s.b.clone()) } else { (s.b.clone(), s.a.clone()) };
        // commission mostly small so that swaps pay out; sometimes extreme
        // commission: mostly ordinary rates, a fee-free pair fairly often, sometimes extreme
        let c = match r.below(20) {
            0..=10 => r.pick(&[nul(), st(3_000_000_000_000_000), st(30_000_000_000_000_000)]).clone(),
            11..=14 => st(0),
            _ => r.pick(&rates).clone(),
        };
        let c = if first_fee_free && pairs.is_empty() { st(0) } else { c };
        pairs.push(json!({"a": a, "b": b, "commission": c, "whitelist": wl, "min0": st(m0), "min1": st(m1)}));
    }
    let setup = json!({"users": USERS, "owner": "owner", "init": st(init), "denoms": denoms, "tokens": tokens,
                       "pairs": pairs, "allow": true, "light": light});
    (setup, specs)
}

/// amount relative to a reference magnitude
fn rel_amount(r: &mut Rng, reference: u128) -> u128 {
    let refv = reference.max(1);
    if r.chance(1, 60) {
        return 0;
    }
    match r.below(12) {
        0 => 1,
        1 => 2 + r.below(8) as u128,
        2 => refv / 1000 + r.below(3) as u128,
        3 => refv / 100 + 1,
        4 | 5 => refv / 10 + r.below128(refv / 10 + 1),
        6 => refv,
        7 => refv.saturating_mul(2 + r.below(10) as u128),
        8 => r.below128(refv) + 1,
        9 => refv / 3 + 1,
        10 => r.below(1000) as u128 + 1,
        _ => refv.saturating_add(r.below(3) as u128).saturating_sub(1).max(1),
    }
}

pub fn pair_infos(w: &World, i: usize) -> (Value, Value) {
    // the pair's own asset order, as abstract infos with concrete addresses
    let p = &w.pairs[i];
    let pi: haloswap::asset::PairInfo = w.app.wrap().query_wasm_smart(&p.addr, &haloswap::pair::QueryMsg::Pair {}).unwrap();
    let conv = |a: &haloswap::asset::AssetInfo| match a {
        haloswap::asset::AssetInfo::NativeToken { denom } => nat(denom),
        haloswap::asset::AssetInfo::Token { contract_addr } => tok(contract_addr),
    };
    (conv(&pi.asset_infos[0]), conv(&pi.asset_infos[1]))
}

pub fn balance(w: &World, info: &Value, who: &str) -> u128 {
    if is_native(info) {
        w.app.wrap().query_balance(who, id_of(info)).map(|c| c.amount.u128()).unwrap_or(0)
    } else {
        let t = w.resolve(&id_of(info));
        let r: Result<cw20::BalanceResponse, _> = w.app.wrap().query_wasm_smart(&t, &cw20::Cw20QueryMsg::Balance { address: who.to_string() });
        r.map(|b| b.balance.u128()).unwrap_or(0)
    }
}

fn funds_for(assets: &[(Value, u128)]) -> Value {
    let mut v: Vec<(String, u128)> = assets.iter().filter(|(i, a)| is_native(i) && *a > 0).map(|(i, a)| (id_of(i), *a)).collect();
    v.sort();
    Value::Array(v.into_iter().map(|(d, a)| json!([d, st(a)])).collect())
}

pub fn op_provide(w: &World, i: usize, who: &str, d0: u128, d1: u128, tol: Value, receiver: Value) -> Value {
    let (a0, a1) = pair_infos(w, i);
    json!({"op": "pair_provide", "pair": w.pairs[i].addr, "caller": who,
           "assets": [asset(&a0, d0), asset(&a1, d1)], "tol": tol, "receiver": receiver,
           "funds": funds_for(&[(a0.clone(), d0), (a1.clone(), d1)])})
}

/// the same provision with the two assets listed in the opposite order to the pair's own (the contract matches the
/// listed assets to its reserves by asset, not by position)
pub fn op_provide_reversed(w: &World, i: usize, who: &str, d0: u128, d1: u128, tol: Value, receiver: Value) -> Value {
    let mut op = op_provide(w, i, who, d0, d1, tol, receiver);
    let a = op["assets"].as_array().unwrap().clone();
    op["assets"] = json!([a[1], a[0]]);
    op
}

pub fn op_swap(w: &World, i: usize, who: &str, offer: &Value, amount: u128, bp: Value, ms: Value, to: Value) -> Value {
    if is_native(offer) {
        json!({"op": "pair_swap", "pair": w.pairs[i].addr, "caller": who, "offer": asset(offer, amount), "bp": bp, "ms": ms, "to": to,
               "funds": funds_for(&[(offer.clone(), amount)])})
    } else {
        json!({"op": "cw20_send", "token": id_of(offer), "caller": who, "contract": w.pairs[i].addr, "amount": st(amount),
               "hook": {"kind": "swap", "offer": asset(offer, amount), "bp": bp, "ms": ms, "to": to}})
    }
}

pub fn op_withdraw(w: &World, i: usize, who: &str, amount: u128) -> Value {
    json!({"op": "cw20_send", "token": w.pairs[i].lp, "caller": who, "contract": w.pairs[i].addr, "amount": st(amount), "hook": {"kind": "withdraw"}})
}

fn some_user(r: &mut Rng) -> &'static str {
    USERS[r.below(4) as usize]
}

fn opt_to(r: &mut Rng) -> Value {
    match r.below(30) {
        0..=8 => Value::String(some_user(r).to_string()),
        // a contract of the system as the receiver (the pair itself, its LP token, the router)
        9 => Value::String("@pair0".to_string()),
        10 => Value::String("@lp0".to_string()),
        11 => Value::String("@router".to_string()),
        _ => nul(),
    }
}

/// a route through the registered pairs starting from a random asset (1..=4 hops)
fn random_route(r: &mut Rng, w: &World, max_hops: usize) -> Vec<(Value, Value)> {
    let n = w.pairs.len();
    let hops = 1 + r.below(max_hops as u64) as usize;
    let mut route = vec![];
    let first = r.below(n as u64) as usize;
    let (a0, a1) = pair_infos(w, first);
    let (mut cur_from, mut cur_to) = if r.chance(1, 2) { (a0, a1) } else { (a1, a0) };
    route.push((cur_from.clone(), cur_to.clone()));
    let mut used = vec![first];
    for _ in 1..hops {
        // find a pair containing cur_to, preferably unused
        let mut cands = vec![];
        for j in 0..n {
            let (b0, b1) = pair_infos(w, j);
            if b0 == cur_to {
                cands.push((j, b1));
            } else if b1 == cur_to {
                cands.push((j, b0));
            }
        }
        let fresh: Vec<_> = cands.iter().filter(|(j, _)| !used.contains(j)).cloned().collect();
        let pool = if !fresh.is_empty() && !r.chance(1, 8) { fresh } else { cands };
        if pool.is_empty() {
            break;
        }
        let (j, nxt) = r.pick(&pool).clone();
        used.push(j);
        cur_from = cur_to.clone();
        cur_to = nxt;
        route.push((cur_from.clone(), cur_to.clone()));
    }
    route
}

fn route_ops(route: &[(Value, Value)]) -> Value {
    Value::Array(route.iter().map(|(o, a)| json!({"offer_info": o, "ask_info": a})).collect())
}

pub fn op_route(w: &World, who: &str, route: &[(Value, Value)], amount: u128, min: Value, to: Value) -> Value {
    let first = &route[0].0;
    if is_native(first) {
        json!({"op": "router_ops", "caller": who, "operations": route_ops(route), "min": min, "to": to,
               "funds": funds_for(&[(first.clone(), amount)])})
    } else {
        json!({"op": "cw20_send", "token": id_of(first), "caller": who, "contract": w.router, "amount": st(amount),
               "hook": {"kind": "router_ops", "operations": route_ops(route), "min": min, "to": to}})
    }
}

// ---------------------------------------------------------------------------------------------
// random driver
// ---------------------------------------------------------------------------------------------
pub fn random_behaviour(r: &mut Rng, t: &mut Trace, steps: usize) {
    let scale_bits = *r.pick(&[10u32, 20, 20, 30, 40, 60, 60, 80, 90, 100]);
    let init: u128 = 1u128 << 124;
    let (setup, _specs) = std_setup(r, init, false);
    let mut w = World::build(&setup);
    t.reset(&w, &setup);
    let np = w.pairs.len();
    // initial liquidity on most pairs (alice is always whitelisted)
    for i in 0..np {
        if r.chance(5, 6) {
            let b0 = r.range(scale_bits.saturating_sub(12).max(2) as u64, scale_bits as u64) as u32;
            let b1 = r.range(scale_bits.saturating_sub(12).max(2) as u64, scale_bits as u64) as u32;
            let s0 = r.bits128(b0);
            let s1 = r.bits128(b1);
            let op = op_provide(&w, i, "alice", s0, s1, nul(), nul());
            t.run(&mut w, op);
        } else {
            // the pair is left without liquidity; half of the time a third party sends both assets straight to it
            // (reserves 1:4, LP supply still zero) and the first provisions carry a tolerance: off the donated
            // ratio (to be refused by the guard), then on it
            if r.chance(1, 2) {
                let (a0, a1) = pair_infos(&w, i);
                let paddr = w.pairs[i].addr.clone();
                let base = 1000 + r.below(1 << 20) as u128;
                for (info, amount) in [(a0.clone(), base), (a1.clone(), base * 4)] {
                    let op = if is_native(&info) {
                        json!({"op": "bank_send", "caller": "bob", "dest": paddr, "coins": [[id_of(&info), st(amount)]]})
                    } else {
                        json!({"op": "cw20_transfer", "token": id_of(&info), "caller": "bob", "dest": paddr, "amount": st(amount)})
                    };
                    t.run(&mut w, op);
                }
                let tol = st(*r.pick(&[D18 / 100, D18 / 1000, D18 / 10]));
                let d = 5000 + r.below(1 << 20) as u128;
                // (both listings of the off-ratio provisions: the guard compares each deposit with its own reserve)
                for (k, (d0, d1)) in [(d, d), (d, d * 16), (d * 4, d), (d, d * 4)].iter().enumerate() {
                    let op = if k % 2 == 0 { op_provide_reversed(&w, i, "alice", *d0, *d1, tol.clone(), nul()) } else { op_provide(&w, i, "alice", *d0, *d1, tol.clone(), nul()) };
                    t.run(&mut w, op);
                }
            }
        }
    }
    // a zero spread limit is a limit: on every funded pair, in both directions (one of them arrives through the cw20
    // hook on mixed pairs), a trade with visible spread and max_spread = 0 must be refused, with and without a belief price
    for i in 0..np {
        let (a0, a1) = pair_infos(&w, i);
        let paddr = w.pairs[i].addr.clone();
        for (offer, other) in [(a0.clone(), a1.clone()), (a1.clone(), a0.clone())] {
            let x = balance(&w, &offer, &paddr);
            let y = balance(&w, &other, &paddr);
            if x < 1000 || y < 1000 { continue; }
            let amount = x / 20 + 1;
            let bp = if r.chance(1, 2) { nul() } else { st(((x as f64 / y as f64) * 1e18) as u128 + 1) };
            let op = op_swap(&w, i, "carol", &offer, amount, bp, st(0), nul());
            t.run(&mut w, op);
        }
    }
    // the owner re-registers both native denoms with other decimals (the factory pushes them to the pairs, whichever
    // position the denom has there); then, on every funded pair and in both directions, a quoted swap with the belief
    // price at the raw quoted price and a 1% limit: the guard must judge it by the NEW decimals
    for (d, dec) in [("ua", 9u64), ("ub", 1), ("ua", 4), ("ub", 11)] {
        t.run(&mut w, json!({"op": "fac_add_native", "caller": "owner", "denom": d, "decimals": dec}));
    }
    for i in 0..np {
        let (a0, a1) = pair_infos(&w, i);
        let paddr = w.pairs[i].addr.clone();
        for (offer, other) in [(a0.clone(), a1.clone()), (a1.clone(), a0.clone())] {
            let x = balance(&w, &offer, &paddr);
            let y = balance(&w, &other, &paddr);
            if x < 100_000 || y < 100_000 { continue; }
            let amount = x / 1000 + 1;
            let q = t.run(&mut w, json!({"op": "q_simulation", "pair": paddr, "offer": asset(&offer, amount)}));
            if !q["ok"].as_bool().unwrap_or(false) { continue; }
            let ret = limbs_to_u128(&q["ret"]).max(1);
            let bp = ((amount as f64 / ret as f64) * 1e18) as u128;
            let op = op_swap(&w, i, "carol", &offer, amount, st(bp.max(1)), st(D18 / 100), nul());
            t.run(&mut w, op);
        }
    }
    // a provision far larger than the reserves and 50% off their ratio, with a 1% tolerance, must be refused by the guard
    // whatever else is attached (two native deposits at once; an unrelated extra coin next to the deposit)
    for i in 0..np {
        let (a0, a1) = pair_infos(&w, i);
        let paddr = w.pairs[i].addr.clone();
        let (r0, r1) = (balance(&w, &a0, &paddr), balance(&w, &a1, &paddr));
        if r0 == 0 || r1 == 0 || r0 > (1u128 << 110) || r1 > (1u128 << 110) || !(is_native(&a0) || is_native(&a1)) { continue; }
        let mut op = op_provide(&w, i, "bob", r0.saturating_mul(40), r1.saturating_mul(60), st(D18 / 100), nul());
        if !(is_native(&a0) && is_native(&a1)) {
            let mut f: Vec<Value> = op["funds"].as_array().unwrap().clone();
            f.push(json!(["uc", st(1)]));
            f.sort_by(|x, y| x[0].as_str().unwrap().cmp(y[0].as_str().unwrap()));
            op["funds"] = Value::Array(f);
        }
        t.run(&mut w, op);
    }
    // one more pair created inside the observed history, with an explicit commission rate (zero every other time):
    // the rate a creator asks for is the rate the pair charges
    {
        let c = if r.chance(1, 2) { st(0) } else { st(pal_rate(r).min(D18)) };
        let other = if r.chance(1, 2) { tok(&w.tokens[0]) } else { nat("ub") };
        let infos = if r.chance(1, 2) { json!([nat("uc"), other]) } else { json!([other, nat("uc")]) };
        t.run(&mut w, json!({"op": "fac_create_pair", "caller": "owner", "infos": infos, "commission": c,
                             "whitelist": ["alice", "bob"], "min0": st(1 + r.below(3) as u128), "min1": st(5 + r.below(3) as u128)}));
    }
    for _ in 0..steps {
        let i = r.below(np as u64) as usize;
        let (a0, a1) = pair_infos(&w, i);
        let paddr = w.pairs[i].addr.clone();
        let r0 = balance(&w, &a0, &paddr);
        let r1 = balance(&w, &a1, &paddr);
        let who = some_user(r);
        match r.below(100) {
            0..=13 => {
                // provide: balanced (with rounding noise), unbalanced, with tolerance, with receiver
                let (d0, d1) = if r0 > 0 && r1 > 0 && r.chance(3, 4) {
                    let f = 1 + r.below(1 << 16) as u128;
                    let d0 = ((r0 as f64) * (f as f64) / 65536.0) as u128;
                    let d0 = d0.max(1);
                    // d1 = d0 * r1 / r0 (+- noise)
                    let d1 = bigint::U256::from(0u64)
                        .overflowing_add(u256_from_u128(d0) * u256_from_u128(r1) / u256_from_u128(r0)).0;
                    let d1 = u256_to_u128(&d1).unwrap_or(u128::MAX >> 8);
                    let noise = match r.below(4) { 0 => 0i128, 1 => 1, 2 => -1, _ => (d1 / 50) as i128 };
                    (d0, (d1 as i128 + noise).max(0) as u128)
                } else {
                    (rel_amount(r, r0.max(1000)), rel_amount(r, r1.max(1000)))
                };
                let tol = match r.below(5) {
                    0 => st(*r.pick(&[0u128, 1, D18 / 100, D18 / 2, D18 - 1, D18, D18 + 1])),
                    1 => st(r.below128(D18 / 10)),
                    _ => nul(),
                };
                let recv = opt_to(r);
                let op = if r.chance(1, 3) { op_provide_reversed(&w, i, who, d0, d1, tol, recv) } else { op_provide(&w, i, who, d0, d1, tol, recv) };
                t.run(&mut w, op);
            }
            14..=23 => {
                // withdraw part of a holder's LP balance
                let lp = tok(&w.pairs[i].lp);
                let holder = *r.pick(&["alice", "alice", "bob", "carol", "mallory"]);
                let bal = balance(&w, &lp, holder);
                let a = match r.below(6) {
                    0 => bal,
                    1 => bal / 2,
                    2 => 1,
                    3 => bal.saturating_add(1),
                    _ => r.below128(bal.max(1)) + 1,
                };
                let op = op_withdraw(&w, i, holder, a);
                t.run(&mut w, op);
            }
            24..=53 => {
                // swap, often quoted first, with guards derived from the quote
                let (offer, xres, yres) = if r.chance(1, 2) { (a0.clone(), r0, r1) } else { (a1.clone(), r1, r0) };
                let _ = yres;
                let amount = rel_amount(r, xres.max(10));
                let quoted = r.chance(1, 2);
                let mut ret = 0u128;
                if quoted {
                    let q = t.run(&mut w, json!({"op": "q_simulation", "pair": paddr, "offer": asset(&offer, amount)}));
                    if q["ok"].as_bool().unwrap_or(false) {
                        ret = limbs_to_u128(&q["ret"]);
                    }
                    // sometimes another trader moves the pool between quote and execution
                    if r.chance(1, 5) {
                        let amt2 = rel_amount(r, xres.max(10));
                        let op2 = op_swap(&w, i, "bob", &offer, amt2, nul(), nul(), nul());
                        t.run(&mut w, op2);
                    }
                }
                let ms = match r.below(6) {
                    0 => st(*r.pick(&[0u128, 1, D18 / 1000, D18 / 100, D18 / 2, D18 - 1, D18, D18 * 2])),
                    1 => st(r.below128(D18 / 5)),
                    _ => nul(),
                };
                let bp = if !ms.is_null() && r.chance(1, 2) {
                    // belief price around offer/return
                    let p = if ret > 0 { (amount as f64) / (ret as f64) } else { 1.0 };
                    let jitter = [0.5, 0.9, 0.99, 1.0, 1.0, 1.01, 1.1, 2.0][r.below(8) as usize];
                    let v = (p * jitter * 1e18) as u128;
                    st(v.max(1))
                } else {
                    nul()
                };
                let op = op_swap(&w, i, who, &offer, amount, bp, ms, opt_to(r));
                t.run(&mut w, op);
            }
            54..=59 => {
                // donation straight to the pair (sometimes of the pair's own LP tokens, which then sit on the pair)
                if r.chance(1, 4) {
                    let lp = tok(&w.pairs[i].lp);
                    let holder = *r.pick(&["alice", "bob", "carol"]);
                    let bal = balance(&w, &lp, holder);
                    if bal > 0 {
                        let op = json!({"op": "cw20_transfer", "token": id_of(&lp), "caller": holder, "dest": paddr, "amount": st(bal / 3 + 1)});
                        t.run(&mut w, op);
                        continue;
                    }
                }
                let (info, rr) = if r.chance(1, 2) { (a0.clone(), r0) } else { (a1.clone(), r1) };
                let amount = rel_amount(r, rr.max(100));
                let op = if is_native(&info) {
                    json!({"op": "bank_send", "caller": who, "dest": paddr, "coins": [[id_of(&info), st(amount)]]})
                } else {
                    json!({"op": "cw20_transfer", "token": id_of(&info), "caller": who, "dest": paddr, "amount": st(amount)})
                };
                t.run(&mut w, op);
            }
            60..=74 => {
                // router route, quoted, minimum around the quote
                let route = random_route(r, &w, 4);
                let first_pair_res = {
                    let mut v = 1000u128;
                    for j in 0..np {
                        let (b0, b1) = pair_infos(&w, j);
                        if (b0 == route[0].0 && b1 == route[0].1) || (b1 == route[0].0 && b0 == route[0].1) {
                            v = balance(&w, &route[0].0, &w.pairs[j].addr);
                        }
                    }
                    v
                };
                let amount = rel_amount(r, first_pair_res.max(10));
                if r.chance(1, 3) {
                    t.run(&mut w, json!({"op": "q_router_sim_fold", "amount": st(amount), "operations": route_ops(&route)}));
                }
                let q = t.run(&mut w, json!({"op": "q_router_sim", "amount": st(amount), "operations": route_ops(&route)}));
                let quote = if q["ok"].as_bool().unwrap_or(false) { limbs_to_u128(&q["amount"]) } else { 0 };
                let interleave = r.chance(1, 6);
                if interleave {
                    let (o, _) = route[0].clone();
                    // someone else trades on the first pair
                    for j in 0..np {
                        let (b0, b1) = pair_infos(&w, j);
                        if (b0 == route[0].0 && b1 == route[0].1) || (b1 == route[0].0 && b0 == route[0].1) {
                            let op2 = op_swap(&w, j, "bob", &o, rel_amount(r, first_pair_res.max(10)), nul(), nul(), nul());
                            t.run(&mut w, op2);
                            break;
                        }
                    }
                }
                let min = match r.below(6) {
                    0 => nul(),
                    1 => st(quote.saturating_sub(1)),
                    2 => st(quote),
                    3 => st(quote.saturating_add(1)),
                    4 => st(0),
                    _ => st(quote.saturating_mul(2).saturating_add(5)),
                };
                let op = op_route(&w, who, &route, amount, min, opt_to(r));
                t.run(&mut w, op);
            }
            75..=79 => {
                // reverse quotes and router folds
                let (ask, yres) = if r.chance(1, 2) { (a0.clone(), r0) } else { (a1.clone(), r1) };
                let b = rel_amount(r, (yres / 2).max(10));
                t.run(&mut w, json!({"op": "q_reverse", "pair": paddr, "ask": asset(&ask, b)}));
                t.run(&mut w, json!({"op": "q_pool", "pair": paddr}));
                if r.chance(1, 3) {
                    t.run(&mut w, json!({"op": "q_fac_config"}));
                }
                if r.chance(1, 2) {
                    let route = random_route(r, &w, 4);
                    let amt_r = rel_amount(r, 1000);
                    t.run(&mut w, json!({"op": "q_router_rev_fold", "amount": st(amt_r), "operations": route_ops(&route)}));
                    t.run(&mut w, json!({"op": "q_router_rev", "amount": st(amt_r), "operations": route_ops(&route)}));
                }
            }
            80..=93 => malformed(r, t, &mut w, i),
            94..=95 => {
                // plain transfers and allowance changes between users
                let info = r.pick(&[a0.clone(), a1.clone(), tok(&w.pairs[i].lp)]).clone();
                let amount = rel_amount(r, 1_000_000);
                let dest = some_user(r);
                let op = if is_native(&info) {
                    json!({"op": "bank_send", "caller": who, "dest": dest, "coins": [[id_of(&info), st(amount)]]})
                } else if r.chance(1, 3) {
                    json!({"op": "cw20_decrease_allowance", "token": id_of(&info), "caller": who, "spender": paddr, "amount": st(amount)})
                } else if r.chance(1, 3) {
                    // the holder destroys tokens (LP tokens: the supply shrinks, the reserves stay)
                    let bal = balance(&w, &info, who);
                    let a = match r.below(4) { 0 => bal, 1 => bal / 2 + 1, 2 => bal.saturating_add(1), _ => amount.min(bal.max(1)) };
                    json!({"op": "cw20_burn", "token": id_of(&info), "caller": who, "amount": st(a)})
                } else {
                    json!({"op": "cw20_transfer", "token": id_of(&info), "caller": who, "dest": dest, "amount": st(amount)})
                };
                t.run(&mut w, op);
            }
            _ => {
                // factory business by the owner: decimals re-registration, lookups, walks
                match r.below(4) {
                    0 => {
                        let d = *r.pick(&["ua", "ub", "uc"]);
                        let dec = r.below(19);
                        t.run(&mut w, json!({"op": "fac_add_native", "caller": "owner", "denom": d, "decimals": dec}));
                        t.run(&mut w, json!({"op": "q_native_decimals", "denom": d}));
                    }
                    1 => {
                        let (x, y) = if r.chance(1, 2) { (a0.clone(), a1.clone()) } else { (a1.clone(), a0.clone()) };
                        t.run(&mut w, json!({"op": "q_fac_pair", "infos": [x, y]}));
                    }
                    2 => {
                        let lim = if r.chance(1, 3) { nul() } else { json!(r.range(1, 5)) };
                        t.run(&mut w, json!({"op": "q_fac_walk", "limit": lim}));
                    }
                    _ => {
                        t.run(&mut w, json!({"op": "q_fac_pair", "infos": [nat("uc"), a0.clone()]}));
                        if r.chance(1, 3) {
                            // ownership round trip, each leg possibly combined with code ids
                            let (tc, pc) = match r.below(3) { 0 => (nul(), nul()), 1 => (json!(4), nul()), _ => (json!(4), json!(2)) };
                            t.run(&mut w, json!({"op": "fac_update_config", "caller": "owner", "new_owner": "newowner", "token_code_id": tc, "pair_code_id": pc}));
                            t.run(&mut w, json!({"op": "fac_add_native", "caller": "owner", "denom": "uc", "decimals": 3}));
                            t.run(&mut w, json!({"op": "fac_update_config", "caller": "newowner", "new_owner": "owner", "token_code_id": pc.clone(), "pair_code_id": nul()}));
                        }
                    }
                }
            }
        }
    }
    // C20: injected withdrawals after the history
    inject_withdrawals(r, t, &mut w);
}

pub fn limbs_to_u128(v: &Value) -> u128 {
    let mut acc: u128 = 0;
    if let Some(a) = v.as_array() {
        for (i, l) in a.iter().enumerate() {
            let x = l.as_u64().unwrap() as u128;
            if 15 * i < 128 {
                acc |= x << (15 * i);
            }
        }
    }
    acc
}

/// deliberately malformed or unauthorised calls on pair i
fn malformed(r: &mut Rng, t: &mut Trace, w: &mut World, i: usize) {
    let (a0, a1) = pair_infos(w, i);
    let paddr = w.pairs[i].addr.clone();
    let who = some_user(r);
    let amount = 1 + r.below(100000) as u128;
    let natives: Vec<Value> = [a0.clone(), a1.clone()].iter().filter(|x| is_native(x)).cloned().collect();
    let tokens: Vec<Value> = [a0.clone(), a1.clone()].iter().filter(|x| !is_native(x)).cloned().collect();
    let other_denom = |d: &str| if d == "ua" { "ub" } else { "ua" };
    let op = match r.below(17) {
        14 if !tokens.is_empty() => {
            // kind confusion: execute-swap naming a NATIVE denom spelled like the pair's cw20 address, funds attached
            let o = r.pick(&tokens).clone();
            let fake = nat(&w.resolve(&id_of(&o)));
            json!({"op": "pair_swap", "pair": paddr, "caller": who, "offer": asset(&fake, amount), "bp": nul(), "ms": nul(), "to": nul(),
                   "funds": [[id_of(&fake), st(amount)]]})
        }
        15 if !tokens.is_empty() => {
            // kind confusion on provide: the cw20 side declared as a native coin of the same spelling
            let fake0 = if is_native(&a0) { a0.clone() } else { nat(&w.resolve(&id_of(&a0))) };
            let fake1 = if is_native(&a1) { a1.clone() } else { nat(&w.resolve(&id_of(&a1))) };
            json!({"op": "pair_provide", "pair": paddr, "caller": who, "assets": [asset(&fake0, amount), asset(&fake1, amount + 1)], "tol": nul(), "receiver": nul(),
                   "funds": funds_for(&[(fake0.clone(), amount), (fake1.clone(), amount + 1)])})
        }
        16 if !tokens.is_empty() => {
            // kind confusion through the router: first hop offers the look-alike native denom
            let o = r.pick(&tokens).clone();
            let other = if o == a0 { a1.clone() } else { a0.clone() };
            let fake = nat(&w.resolve(&id_of(&o)));
            json!({"op": "router_ops", "caller": who, "operations": [{"offer_info": fake, "ask_info": other}], "min": nul(), "to": nul(),
                   "funds": [[id_of(&fake), st(amount)]]})
        }
        0 if !natives.is_empty() => {
            // swap with funds different from the declared amount
            let o = r.pick(&natives).clone();
            let attached = match r.below(4) { 0 => 0, 1 => amount - 1, 2 => amount + 1, _ => amount * 2 };
            let mut funds = vec![];
            if attached > 0 { funds.push(json!([id_of(&o), st(attached)])); }
            // sometimes the declared amount is zero while coins are attached
            let declared = if r.chance(1, 4) { 0 } else { amount };
            json!({"op": "pair_swap", "pair": paddr, "caller": who, "offer": asset(&o, declared), "bp": nul(), "ms": nul(), "to": nul(), "funds": funds})
        }
        1 if !natives.is_empty() => {
            // correct funds plus an unrelated coin
            let o = r.pick(&natives).clone();
            let extra = other_denom(&id_of(&o));
            let mut funds = vec![(id_of(&o), amount), (extra.to_string(), 7u128)];
            funds.sort();
            let fv: Vec<Value> = funds.into_iter().map(|(d, a)| json!([d, st(a)])).collect();
            json!({"op": "pair_swap", "pair": paddr, "caller": who, "offer": asset(&o, amount), "bp": nul(), "ms": nul(), "to": nul(), "funds": fv})
        }
        2 if !tokens.is_empty() => {
            // execute-swap naming a cw20 asset
            let o = r.pick(&tokens).clone();
            json!({"op": "pair_swap", "pair": paddr, "caller": who, "offer": asset(&o, amount), "bp": nul(), "ms": nul(), "to": nul(), "funds": []})
        }
        3 if !tokens.is_empty() => {
            // hook swap naming the OTHER asset of the pair
            let o = r.pick(&tokens).clone();
            let other = if o == a0 { a1.clone() } else { a0.clone() };
            json!({"op": "cw20_send", "token": id_of(&o), "caller": who, "contract": paddr, "amount": st(amount),
                   "hook": {"kind": "swap", "offer": asset(&other, amount), "bp": nul(), "ms": nul(), "to": nul()}})
        }
        4 if !tokens.is_empty() => {
            // hook swap naming a different amount
            let o = r.pick(&tokens).clone();
            let named = if r.chance(1, 2) { amount + 1 } else { amount.saturating_sub(1) };
            json!({"op": "cw20_send", "token": id_of(&o), "caller": who, "contract": paddr, "amount": st(amount),
                   "hook": {"kind": "swap", "offer": asset(&o, named), "bp": nul(), "ms": nul(), "to": nul()}})
        }
        5 => {
            // hook swap sent through a token that is not an asset of this pair (or the LP token), naming a pair asset
            let foreign = if r.chance(1, 2) { w.pairs[i].lp.clone() } else {
                let cands: Vec<String> = w.tokens.iter().filter(|x| !tokens.iter().any(|tk| id_of(tk) == **x)).cloned().collect();
                if cands.is_empty() { w.pairs[i].lp.clone() } else { r.pick(&cands).clone() }
            };
            let named = r.pick(&[a0.clone(), a1.clone()]).clone();
            json!({"op": "cw20_send", "token": foreign, "caller": who, "contract": paddr, "amount": st(amount),
                   "hook": {"kind": "swap", "offer": asset(&named, amount), "bp": nul(), "ms": nul(), "to": nul()}})
        }
        6 => {
            // direct Receive call by a user (no tokens moved)
            let hook = if r.chance(1, 2) { json!({"kind": "withdraw"}) } else {
                json!({"kind": "swap", "offer": asset(r.pick(&[a0.clone(), a1.clone()]), amount), "bp": nul(), "ms": nul(), "to": nul()})
            };
            json!({"op": "pair_receive", "pair": paddr, "caller": who, "sender": who, "amount": st(amount), "hook": hook, "funds": []})
        }
        7 => json!({"op": "pair_update_decimals", "pair": paddr, "caller": *r.pick(&[who, "owner"]), "denom": "ua", "decimals": [1, 1]}),
        8 => {
            let route = random_route(r, w, 2);
            json!({"op": "router_op", "caller": who, "operation": {"offer_info": route[0].0, "ask_info": route[0].1}, "to": nul(), "funds": []})
        }
        9 => json!({"op": "router_assert_min", "caller": who, "info": a0, "prev": st(0), "minimum": st(0), "recv": who}),
        10 => {
            let k = r.below(4);
            match k {
                0 => json!({"op": "fac_update_config", "caller": who, "new_owner": who, "token_code_id": nul(), "pair_code_id": nul()}),
                1 => json!({"op": "fac_add_native", "caller": who, "denom": "ua", "decimals": 1}),
                2 => json!({"op": "fac_migrate_pair", "caller": who, "contract": paddr, "code_id": nul()}),
                _ => json!({"op": "fac_create_pair", "caller": who, "infos": [nat("uc"), a0.clone()], "commission": nul(), "whitelist": [who], "min0": st(0), "min1": st(0)}),
            }
        }
        11 => {
            // provide with wrong funds / missing funds / a foreign asset
            let d0 = amount;
            let d1 = amount + 3;
            match r.below(3) {
                0 => json!({"op": "pair_provide", "pair": paddr, "caller": who, "assets": [asset(&a0, d0), asset(&a1, d1)], "tol": nul(), "receiver": nul(), "funds": []}),
                1 => {
                    let mut f = vec![];
                    if is_native(&a0) { f.push(json!([id_of(&a0), st(d0 + 1)])); }
                    if is_native(&a1) { f.push(json!([id_of(&a1), st(d1)])); }
                    json!({"op": "pair_provide", "pair": paddr, "caller": who, "assets": [asset(&a0, d0), asset(&a1, d1)], "tol": nul(), "receiver": nul(), "funds": f})
                }
                _ => json!({"op": "pair_provide", "pair": paddr, "caller": who, "assets": [asset(&a0, d0), asset(&nat("uc"), d1)], "tol": nul(), "receiver": nul(),
                            "funds": funds_for(&[(a0.clone(), d0), (nat("uc"), d1)])}),
            }
        }
        12 => {
            // routes with an odd shape: empty, two outputs, hops that do not chain (merging into one output,
            // a chain given in the wrong order, a chain funded with the wrong coin) - quoted first
            match r.below(5) {
                0 => json!({"op": "router_ops", "caller": who, "operations": [], "min": nul(), "to": nul(), "funds": []}),
                1 => {
                    // two independent chains (two dangling outputs) through two registered pairs, every chain head funded
                    let mut heads: Vec<(Value, Value)> = vec![];
                    for j in 0..w.pairs.len() {
                        let (b0, b1) = pair_infos(w, j);
                        let (o, a) = if is_native(&b0) { (b0, b1) } else { (b1, b0) };
                        if is_native(&o) && !heads.iter().any(|(ho, ha)| *ho == o || *ha == a || *ha == o || *ho == a) {
                            heads.push((o, a));
                        }
                    }
                    if heads.len() >= 2 {
                        let ops = json!([{"offer_info": heads[0].0, "ask_info": heads[0].1}, {"offer_info": heads[1].0, "ask_info": heads[1].1}]);
                        let funds = funds_for(&[(heads[0].0.clone(), amount), (heads[1].0.clone(), amount + 1)]);
                        let min = if r.chance(1, 2) { nul() } else { st(0) };
                        json!({"op": "router_ops", "caller": who, "operations": ops, "min": min, "to": opt_to(r), "funds": funds})
                    } else {
                        let ops = json!([{"offer_info": nat("ua"), "ask_info": a0.clone()}, {"offer_info": nat("ub"), "ask_info": a1.clone()}]);
                        json!({"op": "router_ops", "caller": who, "operations": ops, "min": nul(), "to": nul(), "funds": [["ua", st(amount)], ["ub", st(amount)]]})
                    }
                }
                k => {
                    let chain = random_route(r, w, 2);
                    let route: Vec<(Value, Value)> = if k == 2 || chain.len() < 2 {
                        // two different pairs paying the same asset: [X -> B, Y -> B]
                        let b = chain[0].1.clone();
                        let mut other = None;
                        for j in 0..w.pairs.len() {
                            let (b0, b1) = pair_infos(w, j);
                            if b0 == b && b1 != chain[0].0 { other = Some((b1, b0)); }
                            else if b1 == b && b0 != chain[0].0 { other = Some((b0, b1)); }
                        }
                        match other { Some(o) => vec![chain[0].clone(), o], None => chain.clone() }
                    } else if k == 3 {
                        vec![chain[1].clone(), chain[0].clone()]
                    } else {
                        chain.clone()
                    };
                    // funded with the first hop's offer asset (k == 4: with the LAST hop's offer asset instead)
                    let fund = if k == 4 { route[route.len() - 1].0.clone() } else { route[0].0.clone() };
                    t.run(w, json!({"op": "q_router_sim", "amount": st(amount), "operations": route_ops(&route)}));
                    let to = opt_to(r);
                    if is_native(&fund) {
                        json!({"op": "router_ops", "caller": who, "operations": route_ops(&route), "min": nul(), "to": to,
                               "funds": [[id_of(&fund), st(amount)]]})
                    } else {
                        json!({"op": "cw20_send", "token": id_of(&fund), "caller": who, "contract": w.router, "amount": st(amount),
                               "hook": {"kind": "router_ops", "operations": route_ops(&route), "min": nul(), "to": to}})
                    }
                }
            }
        }
        _ => {
            // withdraw hook sent with a token that is not the LP token
            let cands: Vec<Value> = [a0.clone(), a1.clone()].iter().filter(|x| !is_native(x)).cloned().collect();
            if cands.is_empty() {
                json!({"op": "cw20_send", "token": w.tokens[0], "caller": who, "contract": paddr, "amount": st(amount), "hook": {"kind": "withdraw"}})
            } else {
                json!({"op": "cw20_send", "token": id_of(&cands[0]), "caller": who, "contract": paddr, "amount": st(amount), "hook": {"kind": "withdraw"}})
            }
        }
    };
    t.run(w, op);
}

/// after a history: withdrawals that qualify under C20 (and some around the qualification boundary)
pub fn inject_withdrawals(r: &mut Rng, t: &mut Trace, w: &mut World) {
    for i in 0..w.pairs.len() {
        let lp = tok(&w.pairs[i].lp);
        for holder in ["alice", "bob", "carol", "mallory"] {
            let bal = balance(w, &lp, holder);
            if bal == 0 {
                continue;
            }
            let (a0, a1) = pair_infos(w, i);
            let paddr = w.pairs[i].addr.clone();
            let r0 = balance(w, &a0, &paddr);
            let r1 = balance(w, &a1, &paddr);
            let ti: cw20::TokenInfoResponse = w.app.wrap().query_wasm_smart(&w.pairs[i].lp, &cw20::Cw20QueryMsg::TokenInfo {}).unwrap();
            let s = ti.total_supply.u128();
            // smallest a with r_i*a/S >= r_i/10^18 + 2 for both i
            let need = |rr: u128| -> u128 {
                if rr == 0 { return u128::MAX; }
                let num = u256_from_u128(s) * (u256_from_u128(rr) + u256_from_u128(2 * D18));
                let den = u256_from_u128(rr) * u256_from_u128(D18);
                let q = num / den;
                let q = if q * den < num { q + bigint::U256::one() } else { q };
                u256_to_u128(&q).unwrap_or(u128::MAX)
            };
            let min_q = need(r0).max(need(r1));
            let mut cands = vec![bal / 3 + 1, bal / 2];
            if min_q <= bal {
                cands.push(min_q);
                cands.push(min_q.saturating_add(1).min(bal));
            }
            if min_q > 1 && min_q != u128::MAX {
                cands.push((min_q - 1).min(bal));
            }
            let a = *r.pick(&cands);
            if a > 0 {
                let op = op_withdraw(w, i, holder, a);
                t.run(w, op);
            }
        }
    }
}

// ---------------------------------------------------------------------------------------------
// matrix driver (C02, C09, C14)
// ---------------------------------------------------------------------------------------------
pub fn matrix_behaviour(r: &mut Rng, t: &mut Trace) {
    let (mut setup, _) = std_setup_with(r, 1u128 << 100, false, true);
    // look-alike bank denoms: the pair denoms in another letter case and with a suffix (bank denoms are exact,
    // case-sensitive strings; a coin of a look-alike denom is not a payment of the declared one)
    for d in ["UA", "UB", "uax"] {
        setup["denoms"].as_array_mut().unwrap().push(json!({"denom": d, "decimals": 6, "register": false}));
    }
    // a fifth pair whose two assets carry the same identifier string: the cw20 token at contract2 and the registered
    // bank denom "contract2" (the factory only refuses two identical asset infos)
    for d in setup["denoms"].as_array_mut().unwrap().iter_mut() {
        if d["denom"] == "contract2" { d["register"] = json!(true); }
    }
    {
        let (a, b) = if r.chance(1, 2) { (tok("@tokA"), nat("contract2")) } else { (nat("contract2"), tok("@tokA")) };
        setup["pairs"].as_array_mut().unwrap().push(json!({"a": a, "b": b, "commission": st(3_000_000_000_000_000), "whitelist": ["alice"], "min0": st(0), "min1": st(0)}));
    }
    let mut w = World::build(&setup);
    t.reset(&w, &setup);
    let np = w.pairs.len();
    let mag = *r.pick(&[1_000_000u128, 1_000_000_000_000, 1u128 << 70]);
    let alike = |d: &str, k: usize| -> String { if k == 0 || d == "ub" { d.to_uppercase() } else { format!("{}x", d) } };
    for i in 0..np {
        let op = op_provide(&w, i, "alice", mag + r.below128(mag), mag * 3 + r.below128(mag), nul(), nul());
        t.run(&mut w, op);
    }
    for i in 0..np {
        let (a0, a1) = pair_infos(&w, i);
        let paddr = w.pairs[i].addr.clone();
        let amount = mag / 1000 + 1 + r.below(50) as u128;
        let infos = [a0.clone(), a1.clone()];
        // --- C02 / C09: every entry x delivered asset x named asset x named amount x funds relation
        for delivered in infos.iter() {
            let foreign = if is_native(delivered) { nat("uc") } else { tok(&w.pairs[i].lp) };
            // the other pair asset spelled as a native denom (kind confusion), when it is a cw20
            let other = if *delivered == infos[0] { infos[1].clone() } else { infos[0].clone() };
            let flipped = if is_native(&other) { foreign.clone() } else { nat(&w.resolve(&id_of(&other))) };
            for named in [infos[0].clone(), infos[1].clone(), foreign.clone(), flipped.clone()].iter() {
                for named_amt in [amount, amount + 1, amount - 1, 0] {
                    if is_native(delivered) {
                        for funds_kind in 0..8 {
                            // only a sample of the full cross product per run, all of it over seeds
                            if !(named == delivered && named_amt == amount) && !r.chance(1, 3) {
                                continue;
                            }
                            if funds_kind >= 5 && !(id_of(delivered) == "ua" || id_of(delivered) == "ub") {
                                continue;
                            }
                            let d = if *named == flipped && is_native(named) { id_of(named) } else { id_of(delivered) };
                            let funds = match funds_kind {
                                0 => json!([]),
                                1 => json!([[d, st(amount - 1)]]),
                                2 => json!([[d, st(amount)]]),
                                3 => json!([[d, st(amount + 1)]]),
                                // the declared amount in a look-alike denom only / ahead of a short real payment
                                5 => json!([[alike(&d, 0), st(amount)]]),
                                6 => json!([[alike(&d, 0), st(amount)], [d, st(amount / 2 + 1)]]),
                                7 => json!([[alike(&d, 1), st(amount)]]),
                                _ => {
                                    let mut f = vec![(d.clone(), amount), ("uc".to_string(), 5u128)];
                                    f.sort();
                                    Value::Array(f.into_iter().map(|(x, a)| json!([x, st(a)])).collect())
                                }
                            };
                            let op = json!({"op": "pair_swap", "pair": paddr, "caller": "carol", "offer": asset(named, named_amt),
                                            "bp": nul(), "ms": nul(), "to": nul(), "funds": funds});
                            t.run(&mut w, op);
                        }
                    } else {
                        // every named asset with the matching amount is always run (the adversarial core of the
                        // matrix); mismatching amounts are sampled
                        if named_amt != amount && !r.chance(1, 2) {
                            continue;
                        }
                        let op = json!({"op": "cw20_send", "token": id_of(delivered), "caller": "carol", "contract": paddr, "amount": st(amount),
                                        "hook": {"kind": "swap", "offer": asset(named, named_amt), "bp": nul(), "ms": nul(),
                                                 "to": if r.chance(1, 2) { nul() } else { Value::String("bob".into()) }}});
                        t.run(&mut w, op);
                    }
                }
            }
        }
        // --- C09 on swaps whose return rounds to zero (a unit or two against the three times larger reserve, accepted
        //     without any payout): the declared amount must still equal the attached funds
        for delivered in infos.iter() {
            if !is_native(delivered) { continue; }
            let d = id_of(delivered);
            for (declared, funds) in [(1u128, json!([])), (1, json!([[d, st(2)]])), (1, json!([[d, st(1)]])), (2, json!([[d, st(amount)]])), (2, json!([[d, st(1)]]))] {
                let op = json!({"op": "pair_swap", "pair": paddr, "caller": "carol", "offer": asset(delivered, declared),
                                "bp": nul(), "ms": nul(), "to": nul(), "funds": funds});
                t.run(&mut w, op);
            }
        }
        // --- C09 on provide: declared x attached for each native asset
        for k in 0..9 {
            let d0 = amount * 10;
            let d1 = amount * 30;
            let mut f: Vec<(String, u128)> = vec![];
            let adj = |k: usize, v: u128| match k { 0 => Some(v), 1 => Some(v - 1), 2 => Some(v + 1), 3 => None, 4 => Some(v), _ => Some(v * 2) };
            if k >= 6 {
                // the declared amounts attached in look-alike denoms: one side (6, 7) or both (8)
                for (j, (a, v)) in [(&a0, d0), (&a1, d1)].iter().enumerate() {
                    if !is_native(a) { continue; }
                    let real = id_of(a);
                    let fake = k == 8 || (k - 6) == j || !(is_native(&a0) && is_native(&a1));
                    f.push((if fake { alike(&real, k % 2) } else { real }, *v));
                }
            } else {
            if is_native(&a0) { if let Some(v) = adj(k, d0) { f.push((id_of(&a0), v)); } }
            if is_native(&a1) { if let Some(v) = adj((k + 3) % 6, d1) { f.push((id_of(&a1), v)); } }
            }
            if k == 4 { f.push(("uc".to_string(), 9)); }
            f.sort();
            f.dedup_by(|x, y| x.0 == y.0);
            let fv: Vec<Value> = f.into_iter().map(|(x, a)| json!([x, st(a)])).collect();
            let op = json!({"op": "pair_provide", "pair": paddr, "caller": "bob", "assets": [asset(&a0, d0), asset(&a1, d1)], "tol": nul(), "receiver": nul(), "funds": fv});
            t.run(&mut w, op);
        }
    }
    // --- C09 / C05 on provide: a native leg declared as a cw20 token spelled like the denom (kind confusion in the
    //     declaration): nothing is attached for it, or the coins are attached anyway - no share may be credited for it
    for i in 0..np {
        let (a0, a1) = pair_infos(&w, i);
        let paddr = w.pairs[i].addr.clone();
        let amount = mag / 500 + 7;
        for (x, y) in [(a0.clone(), a1.clone()), (a1.clone(), a0.clone())] {
            if !is_native(&x) { continue; }
            let forged = json!({"token": id_of(&x)});
            for with_funds in [false, true] {
                let mut f: Vec<(String, u128)> = vec![];
                if with_funds { f.push((id_of(&x), amount)); }
                if is_native(&y) { f.push((id_of(&y), amount * 3)); }
                f.sort();
                let fv: Vec<Value> = f.into_iter().map(|(d, a)| json!([d, st(a)])).collect();
                let op = json!({"op": "pair_provide", "pair": paddr, "caller": "bob", "assets": [asset(&forged, amount), asset(&y, amount * 3)],
                                "tol": nul(), "receiver": nul(), "funds": fv});
                t.run(&mut w, op);
            }
        }
    }
    // --- C14: every privileged / internal entry point x caller role, before and after an ownership transfer
    for phase in 0..2 {
        let p0 = w.pairs[0].addr.clone();
        let lp0 = w.pairs[0].lp.clone();
        let (a0, a1) = pair_infos(&w, 0);
        // (the last two callers are senders whose address the Api refuses to canonicalise - MockApi: under 3 or over 54
        //  characters; they hold nothing and need nothing: an owner check that fails OPEN on such a sender admits them)
        let roles: Vec<String> = vec!["owner".into(), "newowner".into(), "mallory".into(), w.factory.clone(), w.router.clone(), p0.clone(), lp0.clone(), w.tokens[0].clone(), w.tokens[1].clone(), w.pairs[1].addr.clone(),
                                      "zz".into(), "q".repeat(120)];
        for role in roles.iter() {
            let ops = vec![
                json!({"op": "fac_update_config", "caller": role, "new_owner": nul(), "token_code_id": nul(), "pair_code_id": nul()}),
                json!({"op": "fac_update_config", "caller": role, "new_owner": nul(), "token_code_id": 4, "pair_code_id": 2}),
                json!({"op": "fac_add_native", "caller": role, "denom": "uc", "decimals": 9 + phase}),
                json!({"op": "fac_migrate_pair", "caller": role, "contract": p0, "code_id": nul()}),
                json!({"op": "fac_create_pair", "caller": role, "infos": [nat("uc"), nat("ua")], "commission": nul(), "whitelist": ["alice"], "min0": st(0), "min1": st(0)}),
                // ... and with the caller listing itself in the whitelist of the pair it asks for (data of the very message
                // being authorised)
                json!({"op": "fac_create_pair", "caller": role, "infos": [nat("ub"), nat("uc")], "commission": st(D18 / 2), "whitelist": [role, "alice"], "min0": st(0), "min1": st(0)}),
                json!({"op": "pair_update_decimals", "pair": p0, "caller": role, "denom": "ua", "decimals": [2, 2]}),
                json!({"op": "pair_receive", "pair": p0, "caller": role, "sender": "mallory", "amount": st(10), "hook": {"kind": "withdraw"}, "funds": []}),
                json!({"op": "pair_receive", "pair": p0, "caller": role, "sender": "mallory", "amount": st(10),
                       "hook": {"kind": "swap", "offer": asset(if is_native(&a0) { &a1 } else { &a0 }, 10), "bp": nul(), "ms": nul(), "to": nul()}, "funds": []}),
                json!({"op": "router_op", "caller": role, "operation": {"offer_info": a0, "ask_info": a1}, "to": nul(), "funds": []}),
                json!({"op": "router_assert_min", "caller": role, "info": a0, "prev": st(0), "minimum": st(0), "recv": "mallory"}),
            ];
            for op in ops {
                // the create-pair by the genuine owner would consume the set; keep it for the end of each phase
                if op["op"] == "fac_create_pair" && ((phase == 0 && role == "owner") || (phase == 1 && role == "newowner")) {
                    continue;
                }
                // A contract of the system only sends what its own code sends: the harness never impersonates
                // the one contract that is the legitimate sender of an internal message (those positive cases
                // are exercised by the real flows: re-registration, cw20 Send hooks, router routes).
                let kind = op["op"].as_str().unwrap();
                let hook_kind = op["hook"]["kind"].as_str().unwrap_or("");
                let legit = (kind == "pair_update_decimals" && *role == w.factory)
                    || (kind == "pair_receive" && hook_kind == "withdraw" && *role == lp0)
                    || (kind == "pair_receive" && hook_kind == "swap" && w.tokens.contains(role))
                    || ((kind == "router_op" || kind == "router_assert_min") && *role == w.router);
                if legit {
                    continue;
                }
                t.run(&mut w, op);
            }
        }
        if phase == 0 {
            // hand the factory over; the same message may also carry (unchanged) code ids
            let (tc, pc) = match r.below(4) { 0 => (json!(4), nul()), 1 => (nul(), json!(2)), _ => (json!(4), json!(2)) };
            t.run(&mut w, json!({"op": "fac_update_config", "caller": "owner", "new_owner": "newowner", "token_code_id": tc, "pair_code_id": pc}));
            t.run(&mut w, json!({"op": "q_fac_config"}));
        }
    }
    // --- C14 / C07: the withdraw hook delivered through one of the pair's own cw20 ASSETS (not its LP token).  Both
    //     reserves are first inflated by donations so that a pro-rata refund against that token's (huge) supply would be
    //     non-zero and payable: only the LP token may trigger a withdrawal
    for i in 0..np {
        let (a0, a1) = pair_infos(&w, i);
        let paddr = w.pairs[i].addr.clone();
        if is_native(&a0) && is_native(&a1) { continue; }
        for info in [a0.clone(), a1.clone()] {
            let amount = 1u128 << 92;
            let op = if is_native(&info) {
                json!({"op": "bank_send", "caller": "bob", "dest": paddr, "coins": [[id_of(&info), st(amount)]]})
            } else {
                json!({"op": "cw20_transfer", "token": id_of(&info), "caller": "bob", "dest": paddr, "amount": st(amount)})
            };
            t.run(&mut w, op);
        }
        for x in [a0, a1] {
            if is_native(&x) { continue; }
            // (the share ratio amount/supply is cut to 18 digits: the amounts are at least 10^-17 of the supply)
            for amount in [1u128 << 50, 1u128 << 62, 1000] {
                t.run(&mut w, json!({"op": "cw20_send", "token": id_of(&x), "caller": "carol", "contract": paddr, "amount": st(amount), "hook": {"kind": "withdraw"}}));
            }
        }
    }
}

// ---------------------------------------------------------------------------------------------
// routes driver (C11, C12, C13): every chained route of 1..3 hops x entry x recipient x minimum around the quote
// ---------------------------------------------------------------------------------------------
fn chains_from(w: &World, start: &Value, hops: usize) -> Vec<Vec<(Value, Value)>> {
    // all chains of exactly `hops` hops through distinct pairs starting at `start`
    let n = w.pairs.len();
    let mut out: Vec<(Vec<(Value, Value)>, Vec<usize>)> = vec![(vec![], vec![])];
    for _ in 0..hops {
        let mut next = vec![];
        for (route, used) in out.iter() {
            let cur = if route.is_empty() { start.clone() } else { route[route.len() - 1].1.clone() };
            for j in 0..n {
                if used.contains(&j) { continue; }
                let (b0, b1) = pair_infos(w, j);
                let nxt = if b0 == cur { Some(b1) } else if b1 == cur { Some(b0) } else { None };
                if let Some(nx) = nxt {
                    let mut r2 = route.clone();
                    r2.push((cur.clone(), nx));
                    let mut u2 = used.clone();
                    u2.push(j);
                    next.push((r2, u2));
                }
            }
        }
        out = next;
    }
    out.into_iter().map(|(r, _)| r).collect()
}

/// an asset that a pair trades against `y`, other than `avoid` (for building two-output routes)
fn route_other_asset(w: &World, y: &Value, avoid: &Value) -> Value {
    for j in 0..w.pairs.len() {
        let (b0, b1) = pair_infos(w, j);
        if b0 == *y && b1 != *avoid { return b1; }
        if b1 == *y && b0 != *avoid { return b0; }
    }
    avoid.clone()
}

pub fn routes_behaviour(r: &mut Rng, t: &mut Trace) {
    let (setup, _) = std_setup_with(r, 1u128 << 110, false, true);
    let mut w = World::build(&setup);
    t.reset(&w, &setup);
    let np = w.pairs.len();
    let mag = *r.pick(&[1_000_000u128, 1_000_000_000_000, 1u128 << 60]);
    for i in 0..np {
        let op = op_provide(&w, i, "alice", mag + r.below128(mag), mag * 2 + r.below128(mag), nul(), nul());
        t.run(&mut w, op);
    }
    let assets = vec![nat("ua"), nat("ub"), tok(&w.tokens[0]), tok(&w.tokens[1])];
    for start in assets.iter() {
        for hops in 1..=4usize {
            // 4 hops through the four pairs is a round trip back to the start asset
            let chains = chains_from(&w, start, hops);
            if chains.is_empty() { continue; }
            let route = r.pick(&chains).clone();
            for to in [nul(), Value::String("bob".to_string())] {
                for mk in 0..4 {
                    let amount = mag / 1000 + 1 + r.below(1000) as u128;
                    if mk == 0 && r.chance(1, 2) {
                        t.run(&mut w, json!({"op": "q_router_sim_fold", "amount": st(amount), "operations": route_ops(&route)}));
                    }
                    let q = t.run(&mut w, json!({"op": "q_router_sim", "amount": st(amount), "operations": route_ops(&route)}));
                    let quote = if q["ok"].as_bool().unwrap_or(false) { limbs_to_u128(&q["amount"]) } else { 0 };
                    let min = match mk { 0 => nul(), 1 => st(quote), 2 => st(quote.saturating_add(1)), _ => st(quote.saturating_sub(1)) };
                    let op = op_route(&w, "carol", &route, amount, min, to.clone());
                    t.run(&mut w, op);
                }
            }
            // a stale quote: someone else trades on the first pair between the quote and the execution
            let amount = mag / 500 + 7;
            let q = t.run(&mut w, json!({"op": "q_router_sim", "amount": st(amount), "operations": route_ops(&route)}));
            let quote = if q["ok"].as_bool().unwrap_or(false) { limbs_to_u128(&q["amount"]) } else { 0 };
            for j in 0..np {
                let (b0, b1) = pair_infos(&w, j);
                if (b0 == route[0].0 && b1 == route[0].1) || (b1 == route[0].0 && b0 == route[0].1) {
                    let op2 = op_swap(&w, j, "bob", &route[0].0, mag / 20 + 3, nul(), nul(), nul());
                    t.run(&mut w, op2);
                    break;
                }
            }
            let op = op_route(&w, "carol", &route, amount, st(quote), Value::String("bob".to_string()));
            t.run(&mut w, op);
            // hops that do not chain, built from this route's first hop: every shape quoted, then executed
            if hops == 1 {
                let (x, b) = route[0].clone();
                // another pair paying the same asset b
                let mut other: Option<(Value, Value)> = None;
                for j in 0..np {
                    let (b0, b1) = pair_infos(&w, j);
                    if b0 == b && b1 != x { other = Some((b1, b0)); }
                    else if b1 == b && b0 != x { other = Some((b0, b1)); }
                }
                if let Some((y, _)) = other.clone() {
                    let amount = mag / 900 + 13;
                    // (1) two pairs merging into one output, only the first head funded
                    let merge = vec![(x.clone(), b.clone()), (y.clone(), b.clone())];
                    t.run(&mut w, json!({"op": "q_router_sim", "amount": st(amount), "operations": route_ops(&merge)}));
                    let op = op_route(&w, "carol", &merge, amount, nul(), Value::String("bob".to_string()));
                    t.run(&mut w, op);
                    // (2) a two-hop chain given in the wrong order
                    let chain2 = chains_from(&w, &x, 2);
                    if let Some(c2) = chain2.first() {
                        let wrong = vec![c2[1].clone(), c2[0].clone()];
                        t.run(&mut w, json!({"op": "q_router_sim", "amount": st(amount), "operations": route_ops(&wrong)}));
                        // funded with the asset the intended chain starts from
                        let op = if is_native(&c2[0].0) {
                            json!({"op": "router_ops", "caller": "carol", "operations": route_ops(&wrong), "min": nul(), "to": nul(),
                                   "funds": [[id_of(&c2[0].0), st(amount)]]})
                        } else {
                            json!({"op": "cw20_send", "token": id_of(&c2[0].0), "caller": "carol", "contract": w.router, "amount": st(amount),
                                   "hook": {"kind": "router_ops", "operations": route_ops(&wrong), "min": nul(), "to": nul()}})
                        };
                        t.run(&mut w, op);
                    }
                }
            }
            // (3) two independent chains (two dangling outputs) with every native chain head funded, with and
            //     without a minimum: must be refused whatever the funds
            if hops == 1 {
                let mut heads: Vec<(Value, Value)> = vec![];
                for j in 0..np {
                    let (b0, b1) = pair_infos(&w, j);
                    for (o, a) in [(b0.clone(), b1.clone()), (b1.clone(), b0.clone())] {
                        if is_native(&o) && !heads.iter().any(|(ho, ha)| *ho == o || *ha == a || *ha == o || *ho == a) {
                            heads.push((o, a));
                        }
                    }
                }
                if heads.len() >= 2 {
                    let amount = mag / 800 + 17;
                    for min in [nul(), st(0)] {
                        let two = json!([{"offer_info": heads[0].0, "ask_info": heads[0].1}, {"offer_info": heads[1].0, "ask_info": heads[1].1}]);
                        let funds = funds_for(&[(heads[0].0.clone(), amount), (heads[1].0.clone(), amount + 1)]);
                        t.run(&mut w, json!({"op": "router_ops", "caller": "carol", "operations": two, "min": min, "to": nul(), "funds": funds}));
                    }
                }
            }
            // (4) a two-hop chain A->B->C listed in the wrong order [B->C, A->B] with BOTH native heads funded: executed
            //     in listed order it leaves C in the router and delivers only B (two dangling outputs): must be refused
            if hops == 1 {
                let amount = mag / 750 + 19;
                let mut done = 0;
                for j in 0..np {
                    for k in 0..np {
                        if j == k || done >= 2 { continue; }
                        let (j0, j1) = pair_infos(&w, j);
                        let (k0, k1) = pair_infos(&w, k);
                        for (a, b) in [(j0.clone(), j1.clone()), (j1.clone(), j0.clone())] {
                            for (b2, c) in [(k0.clone(), k1.clone()), (k1.clone(), k0.clone())] {
                                if b == b2 && c != a && is_native(&a) && is_native(&b) && done < 2 {
                                    let wrong = json!([{"offer_info": b, "ask_info": c}, {"offer_info": a, "ask_info": b}]);
                                    let funds = funds_for(&[(a.clone(), amount), (b.clone(), amount + 2)]);
                                    for (min, to) in [(nul(), nul()), (st(1), Value::String("bob".to_string()))] {
                                        t.run(&mut w, json!({"op": "router_ops", "caller": "carol", "operations": wrong, "min": min, "to": to, "funds": funds}));
                                    }
                                    done += 1;
                                }
                            }
                        }
                    }
                }
            }
            // quote-then-swap on every pair of the route, both directions (C12 forward on fee-free and ordinary pairs)
            for (o, _a) in route.iter() {
                for j in 0..np {
                    let (b0, b1) = pair_infos(&w, j);
                    if b0 == *o || b1 == *o {
                        let am = mag / 700 + 11;
                        let pj = w.pairs[j].addr.clone();
                        t.run(&mut w, json!({"op": "q_simulation", "pair": pj, "offer": asset(o, am)}));
                        let op = op_swap(&w, j, "carol", o, am, nul(), nul(), nul());
                        t.run(&mut w, op);
                        let other = if b0 == *o { b1 } else { b0 };
                        t.run(&mut w, json!({"op": "q_reverse", "pair": pj, "ask": asset(&other, am / 2 + 1)}));
                        break;
                    }
                }
            }
        }
    }
    // dust asks over multi-hop routes: a pair's reverse quote floors to zero where the asked asset is the cheap one, and
    // the router's reverse quote must still be the composition of the pair quotes (zero stays zero)
    for start in assets.iter() {
        for hops in 2..=3usize {
            for route in chains_from(&w, start, hops).iter().take(3) {
                for amount in [0u128, 1, 2, 3] {
                    t.run(&mut w, json!({"op": "q_router_rev_fold", "amount": st(amount), "operations": route_ops(route)}));
                }
                t.run(&mut w, json!({"op": "q_router_sim_fold", "amount": st(1), "operations": route_ops(route)}));
            }
        }
    }
    // the recipient is a pool of the route that paid out the final asset in an earlier hop: [A->B on P, B->C on Q, C->B on Q]
    // delivered to P with a minimum of 1 - P's balance of B falls over the route, so the minimum is not met and the route
    // must fail
    for start in assets.iter() {
        for route in chains_from(&w, start, 2).iter().take(2) {
            let (a, b) = route[0].clone();
            let (_b, c) = route[1].clone();
            let p_ab = (0..np).find(|&j| { let (x, y) = pair_infos(&w, j); (x == a && y == b) || (x == b && y == a) });
            if let Some(j) = p_ab {
                let back = vec![(a.clone(), b.clone()), (b.clone(), c.clone()), (c.clone(), b.clone())];
                let to = Value::String(w.pairs[j].addr.clone());
                for min in [st(1), st(mag / 2000)] {
                    let op = op_route(&w, "carol", &back, mag / 1000 + 23, min, to.clone());
                    t.run(&mut w, op);
                }
            }
        }
    }
    // dust routes with the smallest meaningful minimum: the last hop may pay out nothing (a pair accepts a swap whose
    // return rounds to zero), and then a minimum of 1 must make the whole route fail
    for start in assets.iter() {
        for hops in 1..=2usize {
            for route in chains_from(&w, start, hops).iter().take(2) {
                for (amount, min) in [(1u128, 1u128), (2, 1), (1, 0), (3, 2)] {
                    let op = op_route(&w, "carol", route, amount, st(min), if amount == 2 { Value::String("bob".to_string()) } else { nul() });
                    t.run(&mut w, op);
                }
            }
        }
    }
    // last (the router is not empty afterwards): somebody sends assets to the router; its quotes must still be the
    // hop-by-hop composition of the pair queries, forward and reverse, for routes through the assets it now holds,
    // and a route executed now still delivers at least its minimum
    for info in assets.iter() {
        let amount = mag / 300 + 5 + r.below(100) as u128;
        let op = if is_native(info) {
            json!({"op": "bank_send", "caller": "bob", "dest": w.router, "coins": [[id_of(info), st(amount)]]})
        } else {
            json!({"op": "cw20_transfer", "token": id_of(info), "caller": "bob", "dest": w.router, "amount": st(amount)})
        };
        t.run(&mut w, op);
    }
    for start in assets.iter() {
        for hops in 2..=3usize {
            for route in chains_from(&w, start, hops).iter().take(2) {
                let amount = mag / 1000 + 3 + r.below(1000) as u128;
                t.run(&mut w, json!({"op": "q_router_sim_fold", "amount": st(amount), "operations": route_ops(route)}));
                t.run(&mut w, json!({"op": "q_router_rev_fold", "amount": st(amount), "operations": route_ops(route)}));
            }
        }
    }
    if let Some(route) = chains_from(&w, &assets[0], 2).first() {
        let amount = mag / 1000 + 9;
        let q = t.run(&mut w, json!({"op": "q_router_sim", "amount": st(amount), "operations": route_ops(route)}));
        let quote = if q["ok"].as_bool().unwrap_or(false) { limbs_to_u128(&q["amount"]) } else { 0 };
        let op = op_route(&w, "carol", route, amount, st(quote), nul());
        t.run(&mut w, op);
    }
}

// ---------------------------------------------------------------------------------------------
// registry driver (C16, C17, C19)
// ---------------------------------------------------------------------------------------------
pub fn registry_behaviour(r: &mut Rng, t: &mut Trace, max_pairs: usize, index: usize) {
    // denoms with shared prefixes and every split of common concatenations
    let pool = ["aaa", "aaab", "aaaa", "aab", "ab", "abc", "aba", "abab", "b", "ba", "bab", "aaaaa", "a", "aa", "c", "ca", "cab"];
    let mut denoms: Vec<&str> = pool.to_vec();
    // shuffle and take 9..14
    for i in (1..denoms.len()).rev() {
        let j = r.below((i + 1) as u64) as usize;
        denoms.swap(i, j);
    }
    let nd = r.range(9, 14) as usize;
    let denoms: Vec<&str> = denoms.into_iter().take(nd).collect();
    let mut dj: Vec<Value> = denoms.iter().map(|d| json!({"denom": d, "decimals": r.below(19), "register": !r.chance(1, 8)})).collect();
    // contract2 is the address the first cw20 token gets
    dj.push(json!({"denom": "contract2", "decimals": 6, "register": false}));
    let tokens = json!([{"name": "tokA", "decimals": 6}, {"name": "tokB", "decimals": 18}, {"name": "tokC", "decimals": 0}]);
    let setup = json!({"users": ["alice", "owner", "mallory"], "owner": "owner", "init": st(1u128 << 60), "denoms": dj, "tokens": tokens,
                       "pairs": [], "allow": false, "light": true});
    let mut w = World::build(&setup);
    t.reset(&w, &setup);
    // candidate assets
    let mut assets: Vec<Value> = denoms.iter().map(|d| nat(d)).collect();
    for tk in w.tokens.iter() {
        assets.push(tok(tk));
    }
    assets.push(tok("nosuchcontract"));
    // size classes by behaviour index: beyond the maximum page (30), just beyond the default page (10), anything
    let target = match index % 4 {
        0 => r.range(33, max_pairs.max(34) as u64) as usize,
        1 => r.range(11, 14) as usize,
        _ => r.range(1, max_pairs as u64) as usize,
    };
    // asset sets whose sorted concatenation collides (the registry key has no delimiter)
    let mut groups: std::collections::BTreeMap<String, Vec<(String, String)>> = std::collections::BTreeMap::new();
    for (i, a) in denoms.iter().enumerate() {
        for b in denoms.iter().skip(i + 1) {
            let (x, y) = if a.as_bytes() <= b.as_bytes() { (a, b) } else { (b, a) };
            groups.entry(format!("{}{}", x, y)).or_default().push((x.to_string(), y.to_string()));
        }
    }
    let colliding: Vec<Vec<(String, String)>> = groups.into_values().filter(|g| g.len() >= 2).collect();
    for g in colliding.iter().take(3) {
        for (x, y) in g.iter() {
            let (ix, iy) = if r.chance(1, 2) { (nat(x), nat(y)) } else { (nat(y), nat(x)) };
            t.run(&mut w, json!({"op": "fac_create_pair", "caller": "owner", "infos": [ix, iy], "commission": nul(),
                                  "whitelist": ["alice"], "min0": st(0), "min1": st(0)}));
            for (u, v) in g.iter() {
                t.run(&mut w, json!({"op": "q_fac_pair", "infos": [nat(u), nat(v)]}));
                t.run(&mut w, json!({"op": "q_fac_pair", "infos": [nat(v), nat(u)]}));
            }
            t.run(&mut w, json!({"op": "q_fac_walk", "limit": json!(2)}));
        }
    }
    let mut created = 0usize;
    let mut attempts = 0;
    while created < target && attempts < target * 4 {
        attempts += 1;
        let x = r.pick(&assets).clone();
        let y = if r.chance(1, 25) { x.clone() } else { r.pick(&assets).clone() };
        let comm = if r.chance(1, 2) { nul() } else { st(pal_rate(r).min(D18 + if r.chance(1, 10) { 5 } else { 0 })) };
        let res = t.run(&mut w, json!({"op": "fac_create_pair", "caller": "owner", "infos": [x, y], "commission": comm,
                                        "whitelist": ["alice"], "min0": st(r.below(5) as u128), "min1": st(r.below(5) as u128)}));
        if res["ok"].as_bool().unwrap() {
            created += 1;
        }
        // lookups in both orders: the set just used, and sets whose concatenation collides with it
        if r.chance(2, 3) {
            t.run(&mut w, json!({"op": "q_fac_pair", "infos": [x, y]}));
            t.run(&mut w, json!({"op": "q_fac_pair", "infos": [y, x]}));
        }
        if r.chance(1, 2) {
            let u = r.pick(&assets).clone();
            let v = r.pick(&assets).clone();
            t.run(&mut w, json!({"op": "q_fac_pair", "infos": [u, v]}));
        }
        if r.chance(1, 6) {
            // duplicate creation in the other order
            t.run(&mut w, json!({"op": "fac_create_pair", "caller": "owner", "infos": [y, x], "commission": nul(), "whitelist": [], "min0": st(0), "min1": st(0)}));
        }
        if r.chance(1, 5) {
            let lim = match r.below(4) { 0 => nul(), 1 => json!(r.range(1, 5)), 2 => json!(r.range(6, 31)), _ => json!(r.range(30, 45)) };
            t.run(&mut w, json!({"op": "q_fac_walk", "limit": lim}));
        }
        if r.chance(1, 6) {
            let d = *r.pick(&denoms);
            t.run(&mut w, json!({"op": "fac_add_native", "caller": "owner", "denom": d, "decimals": r.below(19)}));
            t.run(&mut w, json!({"op": "q_native_decimals", "denom": d}));
        }
    }
    // kind confusion at the key level: a native denom whose bytes equal a registered token's canonical address
    for tk in w.tokens.clone().iter() {
        for other in assets.iter().take(6) {
            t.run(&mut w, json!({"op": "q_fac_pair", "infos": [{"native_canon_of": tk}, other]}));
            t.run(&mut w, json!({"op": "q_fac_pair", "infos": [other, {"native_canon_of": tk}]}));
        }
    }
    // final sweep: all limits of interest, every registered denom re-registered, all collision candidates looked up
    for lim in [nul(), json!(1), json!(2), json!(3), json!(7), json!(10), json!(11), json!(29), json!(30), json!(31), json!(40)] {
        t.run(&mut w, json!({"op": "q_fac_walk", "limit": lim}));
    }
    for d in denoms.iter() {
        t.run(&mut w, json!({"op": "fac_add_native", "caller": "owner", "denom": d, "decimals": r.below(19)}));
    }
    t.run(&mut w, json!({"op": "q_fac_walk", "limit": json!(30)}));
    for _ in 0..30 {
        let u = r.pick(&assets).clone();
        let v = r.pick(&assets).clone();
        t.run(&mut w, json!({"op": "q_fac_pair", "infos": [u, v]}));
    }
    // a bank denom spelled exactly like a cw20 token's address is registered, the token sits in pairs (possibly together
    // with that denom), and the denom is re-registered: only records holding the DENOM may change
    {
        let alias = w.tokens[0].clone();
        // (a denom can only be registered while the factory holds some of it)
        let fac = w.factory.clone();
        t.run(&mut w, json!({"op": "bank_send", "caller": "alice", "dest": fac, "coins": [[alias, st(1)]]}));
        t.run(&mut w, json!({"op": "fac_add_native", "caller": "owner", "denom": alias, "decimals": 4}));
        let partner = nat(denoms[0]);
        for infos in [json!([tok(&alias), partner.clone()]), json!([nat(&alias), tok(&alias)]), json!([tok(&w.tokens[1]), nat(&alias)])] {
            t.run(&mut w, json!({"op": "fac_create_pair", "caller": "owner", "infos": infos, "commission": nul(), "whitelist": ["alice"], "min0": st(0), "min1": st(0)}));
        }
        for dec in [11, 4, 0, 13] {
            t.run(&mut w, json!({"op": "fac_add_native", "caller": "owner", "denom": alias, "decimals": dec}));
            t.run(&mut w, json!({"op": "q_native_decimals", "denom": alias}));
        }
        t.run(&mut w, json!({"op": "q_fac_pair", "infos": [nat(&alias), tok(&alias)]}));
    }
    // re-registrations to exactly the decimals the base tokens have (6, 18, 0): for pairs holding such a token next to
    // the denom the new value equals the OTHER asset's decimals, in either position
    for d in denoms.iter().take(3) {
        for dec in [6u64, 18, 0, 7] {
            t.run(&mut w, json!({"op": "fac_add_native", "caller": "owner", "denom": d, "decimals": dec}));
        }
    }
    // re-registrations far from the other asset's decimals (the field is a u8: 26, 38 and 255 are 20 or more away from the
    // base tokens' 6, 18 and 0), in either position, each followed by a lookup; the last value brings the denom back
    for d in denoms.iter().take(2) {
        for dec in [26u64, 255, 38, 19, 5] {
            t.run(&mut w, json!({"op": "fac_add_native", "caller": "owner", "denom": d, "decimals": dec}));
            t.run(&mut w, json!({"op": "q_native_decimals", "denom": d}));
            let tk = r.pick(&w.tokens.clone()).clone();
            t.run(&mut w, json!({"op": "q_fac_pair", "infos": [nat(d), tok(&tk)]}));
        }
    }
    // ... and what the factory answers for those pairs must still be what the pairs say about themselves
    for d in denoms.iter().take(3) {
        for tk in w.tokens.clone().iter() {
            t.run(&mut w, json!({"op": "q_fac_pair", "infos": [tok(tk), nat(d)]}));
            t.run(&mut w, json!({"op": "q_fac_pair", "infos": [nat(d), tok(tk)]}));
        }
    }
    // one live cw20 token named twice, in two letter cases (addresses canonicalise case-insensitively): still two identical
    // assets, in either order
    {
        let a = w.tokens[2].clone();
        for infos in [json!([tok(&a), tok(&a.to_uppercase())]), json!([tok(&a.to_uppercase()), tok(&a)])] {
            t.run(&mut w, json!({"op": "fac_create_pair", "caller": "owner", "infos": infos, "commission": nul(), "whitelist": ["alice"], "min0": st(0), "min1": st(0)}));
        }
    }
    // ownership is handed over: the former owner's re-registration must fail, the new owner's must reach every pair
    // holding the denom (first and second position), and the new owner can create pairs
    t.run(&mut w, json!({"op": "fac_update_config", "caller": "owner", "new_owner": "mallory", "token_code_id": nul(), "pair_code_id": nul()}));
    t.run(&mut w, json!({"op": "q_fac_config"}));
    for (i, d) in denoms.iter().enumerate().take(4) {
        let who = if i == 0 { "owner" } else { "mallory" };
        t.run(&mut w, json!({"op": "fac_add_native", "caller": who, "denom": d, "decimals": r.below(19)}));
        t.run(&mut w, json!({"op": "q_native_decimals", "denom": d}));
    }
    for who in ["owner", "mallory"] {
        let x = r.pick(&assets).clone();
        let y = r.pick(&assets).clone();
        t.run(&mut w, json!({"op": "fac_create_pair", "caller": who, "infos": [x.clone(), y.clone()], "commission": st(pal_rate(r).min(D18)),
                              "whitelist": ["alice", "mallory"], "min0": st(2), "min1": st(3)}));
        t.run(&mut w, json!({"op": "q_fac_pair", "infos": [y, x]}));
    }
    t.run(&mut w, json!({"op": "q_fac_walk", "limit": json!(9)}));
}

// ---------------------------------------------------------------------------------------------
// withdraw driver (C20): extreme reserves, donations, then qualifying withdrawals
// ---------------------------------------------------------------------------------------------
pub fn withdraw_behaviour(r: &mut Rng, t: &mut Trace) {
    let (setup, _) = std_setup(r, 1u128 << 125, false);
    let mut w = World::build(&setup);
    t.reset(&w, &setup);
    let np = w.pairs.len();
    for i in 0..np {
        let b0 = r.range(1, 96) as u32;
        let b1 = r.range(1, 96) as u32;
        let op = op_provide(&w, i, "alice", r.bits128(b0), r.bits128(b1), nul(), nul());
        t.run(&mut w, op);
        // second provider
        let (a0, a1) = pair_infos(&w, i);
        let paddr = w.pairs[i].addr.clone();
        let r0 = balance(&w, &a0, &paddr);
        let r1 = balance(&w, &a1, &paddr);
        if r0 > 0 && r1 > 0 {
            let f = 1 + r.below(8) as u128;
            let op = op_provide(&w, i, "bob", (r0 / f).max(1), (r1 / f).max(1), nul(), nul());
            t.run(&mut w, op);
        }
        // donations (one side inflated up to 2^120), extreme swaps
        for _ in 0..r.below(3) {
            let info = if r.chance(1, 2) { a0.clone() } else { a1.clone() };
            let nb = r.range(1, 120) as u32;
            let amount = r.bits128(nb);
            let op = if is_native(&info) {
                json!({"op": "bank_send", "caller": "carol", "dest": paddr, "coins": [[id_of(&info), st(amount)]]})
            } else {
                json!({"op": "cw20_transfer", "token": id_of(&info), "caller": "carol", "dest": paddr, "amount": st(amount)})
            };
            t.run(&mut w, op);
        }
        // both reserves inflated at once (up to 2^120 each): the reserve product leaves every range the swap
        // arithmetic can handle, withdrawals must keep working
        if r.chance(1, 2) {
            for info in [a0.clone(), a1.clone()] {
                let nb = r.range(88, 120) as u32;
                let amount = r.bits128(nb);
                let op = if is_native(&info) {
                    json!({"op": "bank_send", "caller": "mallory", "dest": paddr, "coins": [[id_of(&info), st(amount)]]})
                } else {
                    json!({"op": "cw20_transfer", "token": id_of(&info), "caller": "mallory", "dest": paddr, "amount": st(amount)})
                };
                t.run(&mut w, op);
            }
        }
        for _ in 0..r.below(3) {
            let (offer, x) = if r.chance(1, 2) { (a0.clone(), balance(&w, &a0, &paddr)) } else { (a1.clone(), balance(&w, &a1, &paddr)) };
            let amount = rel_amount(r, x.max(10)).min(1u128 << 120);
            let op = op_swap(&w, i, "carol", &offer, amount, nul(), nul(), nul());
            t.run(&mut w, op);
        }
    }
    for round in 0..2 {
        inject_withdrawals(r, t, &mut w);
        if round == 0 {
            // the owner re-registers the native denoms with new decimals (the factory pushes the update to every pair
            // holding them): withdrawals, provisions and swaps must go on working afterwards
            for d in ["ua", "ub"] {
                let dec = r.below(19);
                t.run(&mut w, json!({"op": "fac_add_native", "caller": "owner", "denom": d, "decimals": dec}));
            }
            // holders destroy LP tokens (cw20 Burn): part of a balance, a whole balance; on one pair every holder
            // burns everything, leaving the supply at the reserved unit over full reserves
            for i in 0..np {
                let lp = tok(&w.pairs[i].lp);
                let everyone = i == np - 1;
                for holder in ["alice", "bob", "carol"] {
                    let bal = balance(&w, &lp, holder);
                    if bal == 0 || !(everyone || r.chance(1, 2)) {
                        continue;
                    }
                    let a = if everyone || r.chance(1, 3) { bal } else { r.below128(bal) + 1 };
                    t.run(&mut w, json!({"op": "cw20_burn", "token": id_of(&lp), "caller": holder, "amount": st(a)}));
                }
                if everyone {
                    // liquidity is provided again on the burnt-out pair, then swapped against and withdrawn
                    let (a0, a1) = pair_infos(&w, i);
                    let paddr = w.pairs[i].addr.clone();
                    let (r0, r1) = (balance(&w, &a0, &paddr), balance(&w, &a1, &paddr));
                    for f in [1u128, 3] {
                        let op = op_provide(&w, i, "bob", (r0 / f).max(1).min(1u128 << 100), (r1 / f).max(1).min(1u128 << 100), nul(), nul());
                        t.run(&mut w, op);
                    }
                    let op = op_swap(&w, i, "carol", &a0, (r0 / 50).max(1).min(1u128 << 100), nul(), nul(), nul());
                    t.run(&mut w, op);
                }
            }
        }
    }
    // drain-and-refill: every holder exits completely (only the reserved unit remains), the dust left
    // behind may be inflated by a donation, then liquidity is provided again
    for i in 0..np {
        let lp = tok(&w.pairs[i].lp);
        for holder in ["alice", "bob", "carol", "mallory"] {
            let bal = balance(&w, &lp, holder);
            if bal > 0 {
                let op = op_withdraw(&w, i, holder, bal);
                t.run(&mut w, op);
            }
        }
        let (a0, a1) = pair_infos(&w, i);
        let paddr = w.pairs[i].addr.clone();
        if r.chance(1, 2) {
            let info = if r.chance(1, 2) { a0.clone() } else { a1.clone() };
            let amount = 1 + r.below(1000) as u128;
            let op = if is_native(&info) {
                json!({"op": "bank_send", "caller": "carol", "dest": paddr, "coins": [[id_of(&info), st(amount)]]})
            } else {
                json!({"op": "cw20_transfer", "token": id_of(&info), "caller": "carol", "dest": paddr, "amount": st(amount)})
            };
            t.run(&mut w, op);
        }
        let r0 = balance(&w, &a0, &paddr);
        let r1 = balance(&w, &a1, &paddr);
        for who in ["alice", "mallory"] {
            let k = 1 + r.below(1_000_000) as u128;
            let op = op_provide(&w, i, who, r0.saturating_mul(k).max(1000), r1.saturating_mul(k).max(1000), nul(), nul());
            t.run(&mut w, op);
        }
        inject_withdrawals(r, t, &mut w);
    }
}

// ---------------------------------------------------------------------------------------------
// kf1 driver: the known finding KF-1 at system level (x = y >= 10^18, offer 1: x*y mod (x+1) = 1)
// ---------------------------------------------------------------------------------------------
pub fn kf1_behaviour(r: &mut Rng, t: &mut Trace) {
    let (setup, _) = std_setup_with(r, 1u128 << 100, false, true);
    let mut w = World::build(&setup);
    t.reset(&w, &setup);
    let big = 340_000_000_000_000_000_000_000_000_000u128;
    for i in 0..w.pairs.len() {
        let x = (2 + r.below(7) as u128) * D18 + r.below128(D18);
        let op = op_provide(&w, i, "alice", x, x, nul(), nul());
        t.run(&mut w, op);
        let (a0, a1) = pair_infos(&w, i);
        // the reserves are equal only until the first swap: one unit each way on a fresh x = y pool
        let op = op_swap(&w, i, "carol", &a0, 1, nul(), nul(), nul());
        t.run(&mut w, op);
        let _ = a1;
    }
    // a pool at the capacity of the swap arithmetic: reserves just under the point where (reserve product) * 10^18 leaves
    // 256 bits, pushed over it by a donation; a large swap must then abort (or be priced exactly), never be overpaid
    // (the cw20 / cw20 pair: for a native asset the pair's own capacity guard counts the attached deposit twice)
    let cc = (0..w.pairs.len()).find(|&i| { let (a0, a1) = pair_infos(&w, i); !is_native(&a0) && !is_native(&a1) });
    if let Some(i) = cc {
        let (a0, a1) = pair_infos(&w, i);
        let paddr = w.pairs[i].addr.clone();
        let op = op_provide(&w, i, "alice", big, big, nul(), nul());
        t.run(&mut w, op);
        let op = if is_native(&a0) {
            json!({"op": "bank_send", "caller": "carol", "dest": paddr, "coins": [[id_of(&a0), st(big / 10)]]})
        } else {
            json!({"op": "cw20_transfer", "token": id_of(&a0), "caller": "carol", "dest": paddr, "amount": st(big / 10)})
        };
        t.run(&mut w, op);
        for amount in [big / 2, big / 30, big / 3] {
            let op = op_swap(&w, i, "carol", &a1, amount, nul(), nul(), nul());
            t.run(&mut w, op);
        }
        let op = op_withdraw(&w, i, "alice", big / 7);
        t.run(&mut w, op);
    }
}

pub fn run(driver: &str, seed: u64, behaviours: usize, steps: usize, out: &mut dyn Write) -> usize {
    let mut total = 0;
    for b in 0..behaviours {
        let mut r = Rng::new(seed.wrapping_mul(1_000_003).wrapping_add(b as u64));
        let mut t = Trace { out, n: 0, tag: format!("{}-{}-{}", driver, seed, b), step: 0 };
        match driver {
            "random" => random_behaviour(&mut r, &mut t, steps),
            "matrix" => matrix_behaviour(&mut r, &mut t),
            "routes" => routes_behaviour(&mut r, &mut t),
            "kf1" => kf1_behaviour(&mut r, &mut t),
            "registry" => registry_behaviour(&mut r, &mut t, steps.max(1), b),
            "withdraw" => withdraw_behaviour(&mut r, &mut t),
            other => panic!("unknown driver {}", other),
        }
        total += t.n;
    }
    total
}

//! Number plumbing shared by all drivers: deterministic RNG, operand palettes, and the
//! conversion of raw machine words into base-2^15 limb arrays for the TLA+ side.
//!
//! Limbs are produced by *bit slicing* the raw `u128` / `[u64; 4]` words; no arithmetic or
//! formatting routine of the code under test is involved in what the specification sees.

use bigint::U256;
use serde_json::{json, Value};

pub const LIMB_BITS: usize = 15;

/// little-endian base-2^15 limbs of a 256-bit value given as four little-endian u64 words
pub fn limbs_words(w: [u64; 4]) -> Vec<u32> {
    let mut out = Vec::new();
    let total_bits = 256;
    let mut i = 0;
    while i * LIMB_BITS < total_bits {
        let start = i * LIMB_BITS;
        let mut v: u32 = 0;
        for b in 0..LIMB_BITS {
            let bit = start + b;
            if bit >= total_bits {
                break;
            }
            let word = w[bit / 64];
            if (word >> (bit % 64)) & 1 == 1 {
                v |= 1 << b;
            }
        }
        out.push(v);
        i += 1;
    }
    while let Some(&0) = out.last() {
        out.pop();
    }
    out
}

pub fn limbs_u128(v: u128) -> Vec<u32> {
    limbs_words([v as u64, (v >> 64) as u64, 0, 0])
}

pub fn limbs_u256(v: &U256) -> Vec<u32> {
    limbs_words(v.0)
}

pub fn j128(v: u128) -> Value {
    json!(limbs_u128(v))
}

pub fn j256(v: &U256) -> Value {
    json!(limbs_u256(v))
}

pub fn u256_from_u128(v: u128) -> U256 {
    U256([v as u64, (v >> 64) as u64, 0, 0])
}

pub fn u256_to_u128(v: &U256) -> Option<u128> {
    if v.0[2] != 0 || v.0[3] != 0 {
        None
    } else {
        Some(((v.0[1] as u128) << 64) | v.0[0] as u128)
    }
}

/// text as an array of byte codes (TLA+ strings cannot be indexed)
pub fn jbytes(s: &str) -> Value {
    json!(s.as_bytes().iter().map(|b| *b as u32).collect::<Vec<u32>>())
}

// ---------------------------------------------------------------------------------------------
// deterministic RNG (splitmix64)
// ---------------------------------------------------------------------------------------------
#[derive(Clone)]
pub struct Rng(pub u64);

impl Rng {
    pub fn new(seed: u64) -> Self {
        Rng(seed.wrapping_mul(0x9E3779B97F4A7C15) ^ 0xD1B54A32D192ED03)
    }
    pub fn next_u64(&mut self) -> u64 {
        self.0 = self.0.wrapping_add(0x9E3779B97F4A7C15);
        let mut z = self.0;
        z = (z ^ (z >> 30)).wrapping_mul(0xBF58476D1CE4E5B9);
        z = (z ^ (z >> 27)).wrapping_mul(0x94D049BB133111EB);
        z ^ (z >> 31)
    }
    pub fn next_u128(&mut self) -> u128 {
        ((self.next_u64() as u128) << 64) | self.next_u64() as u128
    }
    pub fn below(&mut self, n: u64) -> u64 {
        if n == 0 {
            0
        } else {
            self.next_u64() % n
        }
    }
    pub fn below128(&mut self, n: u128) -> u128 {
        if n == 0 {
            0
        } else {
            self.next_u128() % n
        }
    }
    pub fn range(&mut self, lo: u64, hi: u64) -> u64 {
        lo + self.below(hi - lo + 1)
    }
    pub fn chance(&mut self, num: u64, den: u64) -> bool {
        self.below(den) < num
    }
    pub fn pick<'a, T>(&mut self, xs: &'a [T]) -> &'a T {
        &xs[self.below(xs.len() as u64) as usize]
    }
    /// uniformly random value with exactly `bits` significant bits (bits in 0..=128)
    pub fn bits128(&mut self, bits: u32) -> u128 {
        if bits == 0 {
            return 0;
        }
        let v = self.next_u128();
        let v = if bits >= 128 { v } else { v & ((1u128 << bits) - 1) };
        v | (1u128 << (bits - 1))
    }
    pub fn bits256(&mut self, bits: u32) -> U256 {
        if bits == 0 {
            return U256::zero();
        }
        let mut w = [self.next_u64(), self.next_u64(), self.next_u64(), self.next_u64()];
        for (i, word) in w.iter_mut().enumerate() {
            let lo = (i * 64) as u32;
            if bits <= lo {
                *word = 0;
            } else if bits < lo + 64 {
                *word &= (1u64 << (bits - lo)) - 1;
            }
        }
        let top = bits - 1;
        w[(top / 64) as usize] |= 1u64 << (top % 64);
        U256(w)
    }
}

pub const D18: u128 = 1_000_000_000_000_000_000;

pub fn pow10_128(k: u32) -> u128 {
    10u128.pow(k)
}

/// structured 128-bit operand: small values, powers of two and ten +-1, limb-carry patterns, random widths
pub fn pal128(r: &mut Rng) -> u128 {
    match r.below(12) {
        0 => r.below(4) as u128,
        1 => r.below(1000) as u128,
        2 => {
            let k = *r.pick(&[15u32, 30, 45, 60, 63, 64, 65, 75, 90, 96, 105, 120, 126, 127]);
            let p = 1u128 << k;
            match r.below(3) {
                0 => p - 1,
                1 => p,
                _ => p + 1,
            }
        }
        3 => {
            let k = r.range(1, 38) as u32;
            let p = pow10_128(k);
            match r.below(3) {
                0 => p - 1,
                1 => p,
                _ => p + 1,
            }
        }
        4 => u128::MAX - r.below(3) as u128,
        5 => {
            // limb-carry patterns
            *r.pick(&[
                0xFFFF_FFFF_FFFF_FFFFu128,
                0x1_0000_0000_0000_0000u128,
                0xFFFF_FFFF_FFFF_FFFF_0000_0000_0000_0000u128,
                0x7FFF_FFFF_FFFF_FFFF_FFFF_FFFF_FFFF_FFFFu128,
                0xAAAA_AAAA_AAAA_AAAA_AAAA_AAAA_AAAA_AAAAu128,
                0x5555_5555_5555_5555_5555_5555_5555_5555u128,
                0x0000_0000_FFFF_FFFF_FFFF_FFFF_0000_0001u128,
            ])
        }
        6 | 7 => {
            // production-like magnitudes (6..18 decimals, thousands to billions of tokens)
            let k = r.range(3, 30) as u32;
            let m = pow10_128(k);
            r.below128(m * 9) + m
        }
        _ => {
            let bits = r.range(1, 128) as u32;
            r.bits128(bits)
        }
    }
}

/// structured 256-bit operand
pub fn pal256(r: &mut Rng) -> U256 {
    match r.below(10) {
        0 => U256::from(r.below(4)),
        1 => u256_from_u128(pal128(r)),
        2 => {
            let k = *r.pick(&[63u32, 64, 65, 127, 128, 129, 191, 192, 193, 196, 197, 254, 255]);
            let p = U256::one() << (k as usize);
            match r.below(3) {
                0 => p - U256::one(),
                1 => p,
                _ => p + U256::one(),
            }
        }
        3 => {
            let k = r.range(1, 77) as usize;
            let p = U256::from(10u64).pow(U256::from(k as u64));
            match r.below(3) {
                0 => p - U256::one(),
                1 => p,
                _ => p + U256::one(),
            }
        }
        4 => U256::MAX - U256::from(r.below(3)),
        5 => {
            let pats: [[u64; 4]; 6] = [
                [u64::MAX, 0, 0, 0],
                [0, 1, 0, 0],
                [u64::MAX, u64::MAX, 0, 0],
                [0, 0, 1, 0],
                [u64::MAX, u64::MAX, u64::MAX, 0],
                [1, 0, 0, 1u64 << 63],
            ];
            U256(*r.pick(&pats))
        }
        6 => {
            // sparse words: every 64-bit word independently zero or random (limb-boundary structure)
            let mut w = [0u64; 4];
            for x in w.iter_mut() {
                if r.chance(1, 2) {
                    *x = if r.chance(1, 3) { 1 } else { r.next_u64() };
                }
            }
            U256(w)
        }
        _ => {
            let bits = r.range(1, 256) as u32;
            r.bits256(bits)
        }
    }
}

/// commission rates / tolerances as 18-digit atomics, mostly inside [0,1]
pub fn pal_rate(r: &mut Rng) -> u128 {
    match r.below(12) {
        0 => 0,
        1 => 1,
        2 => 3_000_000_000_000_000,  // 0.3% (factory default)
        3 => 30_000_000_000_000_000, // 3%
        4 => D18 / 2,
        5 => D18 - 1,
        6 => D18,
        7 => r.below128(D18 / 10),
        8 => pow10_128(r.range(0, 17) as u32) * r.range(1, 9) as u128,
        _ => r.below128(D18 + 1),
    }
}

//! System-level driver: the real factory / pair / router contracts and cw20-base tokens running in a
//! cw-multi-test `App`.  A *scenario* (JSON: setup + list of abstract operations) is executed operation
//! by operation; after each one the whole abstract state is projected (all balances, supplies,
//! allowances toward pairs, each pair's self-description, the factory's raw registry) and written as
//! one trace event.  Contract panics are caught and recorded as outcomes.

use crate::num::*;
use cosmwasm_std::testing::MockApi;
use cosmwasm_std::{
    to_binary, Addr, Api, BankMsg, Binary, CanonicalAddr, Coin, CosmosMsg, Decimal, Empty, Uint128, WasmMsg,
};
use cw20::{Cw20Coin, Cw20ExecuteMsg, Cw20QueryMsg, MinterResponse};
use cw_multi_test::{App, AppBuilder, AppResponse, Contract, ContractWrapper, Executor};
use haloswap::asset::{Asset, AssetInfo, CreatePairRequirements, LPTokenInfo, PairInfo};
use haloswap::factory::{ExecuteMsg as FacExec, InstantiateMsg as FacInit, QueryMsg as FacQuery};
use haloswap::pair::{Cw20HookMsg as PairHook, ExecuteMsg as PairExec, QueryMsg as PairQuery};
use haloswap::router::{
    Cw20HookMsg as RouterHook, ExecuteMsg as RouterExec, InstantiateMsg as RouterInit, QueryMsg as RouterQuery,
    SwapOperation,
};
use serde_json::{json, Map, Value};
use std::collections::BTreeMap;
use std::panic::{catch_unwind, AssertUnwindSafe};
use std::str::FromStr;

fn factory_code() -> Box<dyn Contract<Empty>> {
    Box::new(
        ContractWrapper::new(
            halo_factory::contract::execute,
            halo_factory::contract::instantiate,
            halo_factory::contract::query,
        )
        .with_reply(halo_factory::contract::reply)
        .with_migrate(halo_factory::contract::migrate),
    )
}
fn pair_code() -> Box<dyn Contract<Empty>> {
    Box::new(
        ContractWrapper::new(halo_pair::contract::execute, halo_pair::contract::instantiate, halo_pair::contract::query)
            .with_reply(halo_pair::contract::reply)
            .with_migrate(halo_pair::contract::migrate),
    )
}
fn router_code() -> Box<dyn Contract<Empty>> {
    Box::new(
        ContractWrapper::new(
            halo_router::contract::execute,
            halo_router::contract::instantiate,
            halo_router::contract::query,
        )
        .with_migrate(halo_router::contract::migrate),
    )
}
fn token_code() -> Box<dyn Contract<Empty>> {
    Box::new(ContractWrapper::new(
        cw20_base::contract::execute,
        cw20_base::contract::instantiate,
        cw20_base::contract::query,
    ))
}

#[derive(Clone, Debug)]
pub struct PairMeta {
    pub addr: String,
    pub lp: String,
}

pub struct World {
    pub app: App,
    pub users: Vec<String>,
    pub denoms: Vec<String>,
    pub tokens: Vec<String>,
    pub factory: String,
    pub router: String,
    pub pairs: Vec<PairMeta>,
    pub names: BTreeMap<String, String>,
    pub pair_code_id: u64,
    pub token_code_id: u64,
    /// light projection: balances of users / factory / router / base tokens only (registry-heavy worlds)
    pub light: bool,
    /// successful CreatePair transactions seen so far (sanity check of the raw-storage projection)
    pub created: usize,
}

fn s(v: &Value) -> String {
    match v {
        Value::String(x) => x.clone(),
        Value::Number(n) => n.to_string(),
        _ => panic!("expected string, got {}", v),
    }
}
fn amt(v: &Value) -> Uint128 {
    Uint128::from_str(&s(v)).unwrap_or_else(|_| panic!("bad amount {}", v))
}
fn opt_amt(v: &Value) -> Option<Uint128> {
    if v.is_null() { None } else { Some(amt(v)) }
}
fn opt_dec(v: &Value) -> Option<Decimal> {
    if v.is_null() {
        None
    } else {
        Some(Decimal::from_atomics(amt(v), 18).expect("decimal atomics"))
    }
}
fn opt_str(v: &Value) -> Option<String> {
    if v.is_null() { None } else { Some(s(v)) }
}

/// error text -> outcome class used by the specification
pub fn classify_error(text: &str) -> String {
    let pats: [(&str, &str); 22] = [
        ("Max spread assertion", "err:Max spread assertion"),
        ("Max slippage assertion", "err:Max slippage assertion"),
        ("Asset mismatch", "err:Asset mismatch"),
        ("Native token balance mismatch", "err:Native token balance mismatch"),
        ("assertion failed; minimum receive amount", "err:minimum receive"),
        ("must provide operations", "err:must provide operations"),
        ("multiple output token", "err:multiple output token"),
        ("Pair already exists", "err:Pair already exists"),
        ("same asset", "err:same asset"),
        ("commission rate must be between", "err:commission rate"),
        ("asset1 is invalid", "err:asset invalid"),
        ("asset2 is invalid", "err:asset invalid"),
        ("a balance greater than zero is required", "err:factory balance"),
        ("slippage_tolerance cannot bigger than 1", "err:slippage_tolerance cannot bigger than 1"),
        ("the sender is not in whitelist", "err:not whitelisted"),
        ("the minimum deposit is not satisfied", "err:minimum deposit"),
        ("Invalid zero amount", "err:Invalid zero amount"),
        ("Unauthorized", "err:Unauthorized"),
        ("unauthorized", "err:Unauthorized"),
        ("No allowance for this account", "err:No allowance"),
        ("Overflow: Cannot Sub", "err:Overflow sub"),
        ("Cannot transfer empty coins amount", "err:empty coins"),
    ];
    for (p, c) in pats.iter() {
        if text.contains(p) {
            return c.to_string();
        }
    }
    "err:other".to_string()
}

fn info_of(w: &World, v: &Value) -> AssetInfo {
    if let Some(t) = v.get("native_canon_of") {
        // a bank denom whose bytes are exactly the canonical address bytes of a contract (kind confusion at
        // the registry-key level); only meaningful in lookups
        let canon = MockApi::default().addr_canonicalize(&w.resolve(&s(t))).unwrap();
        AssetInfo::NativeToken { denom: String::from_utf8_lossy(canon.as_slice()).to_string() }
    } else if let Some(d) = v.get("native") {
        AssetInfo::NativeToken { denom: s(d) }
    } else {
        AssetInfo::Token { contract_addr: w.resolve(&s(&v["token"])) }
    }
}
fn asset_of(w: &World, v: &Value) -> Asset {
    Asset { info: info_of(w, &v["info"]), amount: amt(&v["amount"]) }
}
fn jinfo(i: &AssetInfo) -> Value {
    match i {
        AssetInfo::NativeToken { denom } if denom.contains('\u{0}') => {
            let printable: String = denom.chars().filter(|c| *c != '\u{0}').collect();
            json!({"native": true, "id": format!("canon:{}", printable)})
        }
        AssetInfo::NativeToken { denom } => json!({"native": true, "id": denom}),
        AssetInfo::Token { contract_addr } => json!({"native": false, "id": contract_addr}),
    }
}

/// convert every all-digit string of a JSON value into a limb array (amounts), resolve @names
fn tla_view(w: &World, v: &Value) -> Value {
    match v {
        Value::String(x) => {
            if !x.is_empty() && x.len() <= 39 && x.bytes().all(|b| b.is_ascii_digit()) {
                match x.parse::<u128>() {
                    Ok(n) => j128(n),
                    Err(_) => Value::String(x.clone()),
                }
            } else if x.starts_with('@') {
                Value::String(w.resolve(x))
            } else {
                Value::String(x.clone())
            }
        }
        Value::Array(a) => Value::Array(a.iter().map(|e| tla_view(w, e)).collect()),
        Value::Object(o) => {
            let mut m = Map::new();
            for (k, e) in o {
                if k == "info" || k == "offer_info" || k == "ask_info" {
                    // asset infos get the canonical {native, id} shape
                    m.insert(k.clone(), jinfo(&info_of(w, e)));
                } else if (k == "infos" || k == "start_after") && e.is_array() {
                    let arr: Vec<Value> = e.as_array().unwrap().iter().map(|x| jinfo(&info_of(w, x))).collect();
                    if k == "infos" { m.insert(k.clone(), Value::Array(arr)); }
                    else { m.insert(k.clone(), json!({"some": true, "v": arr})); }
                } else if e.is_null() {
                    m.insert(k.clone(), json!({"some": false, "v": []}));
                } else if ["tol", "bp", "ms", "min", "commission"].contains(&k.as_str()) {
                    m.insert(k.clone(), json!({"some": true, "v": tla_view(w, e)}));
                } else if ["receiver", "to", "new_owner", "limit", "token_code_id", "pair_code_id", "code_id"].contains(&k.as_str()) {
                    m.insert(k.clone(), json!({"some": true, "v": tla_view(w, e)}));
                } else {
                    m.insert(k.clone(), tla_view(w, e));
                }
            }
            Value::Object(m)
        }
        other => other.clone(),
    }
}

impl World {
    pub fn view(&self, op: &Value) -> Value {
        tla_view(self, op)
    }

    pub fn resolve(&self, name: &str) -> String {
        if let Some(n) = name.strip_prefix('@') {
            self.names.get(n).cloned().unwrap_or_else(|| panic!("unknown name @{}", n))
        } else {
            name.to_string()
        }
    }

    /// build the world described by scenario["setup"]
    pub fn build(setup: &Value) -> World {
        let users: Vec<String> = setup["users"].as_array().unwrap().iter().map(s).collect();
        let denoms: Vec<(String, u8, bool)> = setup["denoms"]
            .as_array()
            .unwrap()
            .iter()
            .map(|d| (s(&d["denom"]), d["decimals"].as_u64().unwrap() as u8, d["register"].as_bool().unwrap_or(true)))
            .collect();
        let init = amt(&setup["init"]);
        let owner = s(&setup["owner"]);
        let funded: Vec<String> = users.clone();
        let coins: Vec<Coin> = denoms.iter().map(|(d, _, _)| Coin { denom: d.clone(), amount: init }).collect();
        let mut app = AppBuilder::new().build(|router, _, storage| {
            for u in funded.iter() {
                router.bank.init_balance(storage, &Addr::unchecked(u), coins.clone()).unwrap();
            }
        });
        let factory_code_id = app.store_code(factory_code());
        let pair_code_id = app.store_code(pair_code());
        let router_code_id = app.store_code(router_code());
        let token_code_id = app.store_code(token_code());
        let mut names = BTreeMap::new();

        let factory = app
            .instantiate_contract(factory_code_id, Addr::unchecked(&owner), &FacInit { pair_code_id, token_code_id }, &[], "factory", None)
            .unwrap()
            .to_string();
        names.insert("factory".to_string(), factory.clone());
        let router = app
            .instantiate_contract(router_code_id, Addr::unchecked(&owner), &RouterInit { halo_factory: factory.clone() }, &[], "router", None)
            .unwrap()
            .to_string();
        names.insert("router".to_string(), router.clone());

        let mut tokens = vec![];
        for (i, t) in setup["tokens"].as_array().unwrap().iter().enumerate() {
            let name = s(&t["name"]);
            let addr = app
                .instantiate_contract(
                    token_code_id,
                    Addr::unchecked(&owner),
                    &cw20_base::msg::InstantiateMsg {
                        name: format!("token {}", name),
                        symbol: "TOK".to_string(),
                        decimals: t["decimals"].as_u64().unwrap() as u8,
                        initial_balances: users.iter().map(|u| Cw20Coin { address: u.clone(), amount: init }).collect(),
                        mint: None,
                        marketing: None,
                    },
                    &[],
                    "token",
                    None,
                )
                .unwrap()
                .to_string();
            names.insert(name, addr.clone());
            names.insert(format!("tok{}", i), addr.clone());
            tokens.push(addr);
        }
        let mut w = World {
            app,
            users,
            denoms: denoms.iter().map(|(d, _, _)| d.clone()).collect(),
            tokens,
            factory,
            router,
            pairs: vec![],
            names,
            pair_code_id,
            token_code_id,
            light: setup["light"].as_bool().unwrap_or(false),
            created: 0,
        };
        // register native denoms (the factory must hold a positive balance of the denom)
        for (d, dec, reg) in denoms.iter() {
            if *reg {
                w.app
                    .send_tokens(Addr::unchecked(&owner), Addr::unchecked(&w.factory), &[Coin { denom: d.clone(), amount: Uint128::new(1) }])
                    .unwrap();
                w.app
                    .execute_contract(
                        Addr::unchecked(&owner),
                        Addr::unchecked(&w.factory),
                        &FacExec::AddNativeTokenDecimals { denom: d.clone(), decimals: *dec },
                        &[],
                    )
                    .unwrap();
            }
        }
        // sanity of the raw-storage projection: what was just registered must be readable
        let fs = w.factory_state();
        let registered = denoms.iter().filter(|(_, _, reg)| *reg).count();
        if fs["native"].as_array().map(|a| a.len()).unwrap_or(0) != registered || fs["owner"].as_str().unwrap_or("") != owner {
            eprintln!("harness: raw-storage projection of the factory (allow-list / config) does not match the setup");
            std::process::exit(3);
        }
        // pairs
        if let Some(ps) = setup["pairs"].as_array() {
            for p in ps {
                let op = json!({"op": "fac_create_pair", "caller": owner, "infos": [p["a"], p["b"]],
                    "commission": p["commission"], "whitelist": p["whitelist"], "min0": p["min0"], "min1": p["min1"]});
                let (res, _) = w.exec(&op);
                assert!(res["ok"].as_bool().unwrap(), "setup pair creation failed: {}", res);
            }
        }
        // allowances of every user toward every pair for every token (large)
        if setup["allow"].as_bool().unwrap_or(true) {
            let pairs: Vec<String> = w.pairs.iter().map(|p| p.addr.clone()).collect();
            let toks: Vec<String> = w.tokens.iter().cloned().chain(w.pairs.iter().map(|p| p.lp.clone())).collect();
            for u in w.users.clone() {
                for t in toks.iter() {
                    for p in pairs.iter() {
                        let _ = w.app.execute_contract(
                            Addr::unchecked(&u),
                            Addr::unchecked(t),
                            &Cw20ExecuteMsg::IncreaseAllowance { spender: p.clone(), amount: init, expires: None },
                            &[],
                        );
                    }
                }
            }
        }
        w
    }

    fn note_new_pairs(&mut self) {
        // discover pairs from the factory's raw registry (bookkeeping for names only)
        let reg = self.registry();
        for e in reg {
            let addr = s(&e["pair"]);
            if !self.pairs.iter().any(|p| p.addr == addr) {
                let lp = s(&e["lp"]);
                let i = self.pairs.len();
                self.names.insert(format!("pair{}", i), addr.clone());
                self.names.insert(format!("lp{}", i), lp.clone());
                self.pairs.push(PairMeta { addr, lp });
            }
        }
    }

    pub fn accounts(&self) -> Vec<String> {
        let mut v = self.users.clone();
        v.push(self.factory.clone());
        v.push(self.router.clone());
        v.extend(self.tokens.iter().cloned());
        if self.light {
            return v;
        }
        for p in self.pairs.iter() {
            v.push(p.addr.clone());
            v.push(p.lp.clone());
        }
        v
    }

    // -----------------------------------------------------------------------------------------
    // projection of the abstract state
    // -----------------------------------------------------------------------------------------
    fn humanize_b64(&self, b64: &Value) -> String {
        let bin = Binary::from_base64(b64.as_str().unwrap()).unwrap();
        MockApi::default().addr_humanize(&CanonicalAddr::from(bin.0)).map(|a| a.to_string()).unwrap_or_default()
    }

    fn raw_info(&self, v: &Value) -> Value {
        if let Some(n) = v.get("native_token") {
            json!({"native": true, "id": n["denom"]})
        } else {
            json!({"native": false, "id": self.humanize_b64(&v["token"]["contract_addr"])})
        }
    }

    /// the factory's registry read from raw storage, in key order (independent of the query code)
    pub fn registry(&self) -> Vec<Value> {
        let mut out = vec![];
        let prefix: Vec<u8> = [&[0u8, 9u8][..], b"pair_info"].concat();
        for (k, v) in self.app.dump_wasm_raw(&Addr::unchecked(&self.factory)) {
            if k.len() > prefix.len() && k.starts_with(&prefix) {
                let key = &k[prefix.len()..];
                let rec: Value = serde_json::from_slice(&v).unwrap();
                let dec = rec["commission_rate"].as_str().unwrap();
                let comm = bignumber::Decimal256::from_str(dec).map(|d| j256(&d.0)).unwrap_or(json!([]));
                out.push(json!({
                    "key": key.iter().map(|b| *b as u32).collect::<Vec<u32>>(),
                    "a0": self.raw_info(&rec["asset_infos"][0]),
                    "a1": self.raw_info(&rec["asset_infos"][1]),
                    "pair": self.humanize_b64(&rec["contract_addr"]),
                    "lp": self.humanize_b64(&rec["liquidity_token"]),
                    "d0": rec["asset_decimals"][0], "d1": rec["asset_decimals"][1],
                    "commission": comm,
                    "wl": rec["requirements"]["whitelist"],
                    "m0": j128(rec["requirements"]["first_asset_minimum"].as_str().unwrap().parse().unwrap()),
                    "m1": j128(rec["requirements"]["second_asset_minimum"].as_str().unwrap().parse().unwrap()),
                }));
            }
        }
        out
    }

    fn factory_state(&self) -> Value {
        let mut native = vec![];
        let mut owner = String::new();
        let (mut pc, mut tc) = (0u64, 0u64);
        let pfx: Vec<u8> = [&[0u8, 18u8][..], b"allow_native_token"].concat();
        for (k, v) in self.app.dump_wasm_raw(&Addr::unchecked(&self.factory)) {
            if k.starts_with(&pfx) && k.len() > pfx.len() {
                let denom = String::from_utf8_lossy(&k[pfx.len()..]).to_string();
                let d: u64 = serde_json::from_slice(&v).unwrap();
                native.push(json!({"denom": denom, "decimals": d}));
            } else if k == b"config" {
                let c: Value = serde_json::from_slice(&v).unwrap();
                owner = self.humanize_b64(&c["owner"]);
                pc = c["pair_code_id"].as_u64().unwrap();
                tc = c["token_code_id"].as_u64().unwrap();
            }
        }
        json!({"addr": self.factory, "owner": owner, "pair_code": pc, "token_code": tc, "native": native, "reg": self.registry()})
    }

    pub fn project(&self) -> Value {
        let accts = self.accounts();
        let mut bank = Map::new();
        for d in self.denoms.iter() {
            let mut m = Map::new();
            for a in accts.iter() {
                let b = self.app.wrap().query_balance(a, d).map(|c| c.amount.u128()).unwrap_or(0);
                m.insert(a.clone(), j128(b));
            }
            bank.insert(d.clone(), Value::Object(m));
        }
        let mut tok = Map::new();
        let all_tokens: Vec<String> = if self.light { self.tokens.clone() } else {
            self.tokens.iter().cloned().chain(self.pairs.iter().map(|p| p.lp.clone())).collect()
        };
        let spenders: Vec<String> = if self.light { vec![] } else { self.pairs.iter().map(|p| p.addr.clone()).collect() };
        for t in all_tokens.iter() {
            let mut bal = Map::new();
            for a in accts.iter() {
                let r: cw20::BalanceResponse =
                    self.app.wrap().query_wasm_smart(t, &Cw20QueryMsg::Balance { address: a.clone() }).unwrap();
                bal.insert(a.clone(), j128(r.balance.u128()));
            }
            let ti: cw20::TokenInfoResponse = self.app.wrap().query_wasm_smart(t, &Cw20QueryMsg::TokenInfo {}).unwrap();
            let minter: Option<MinterResponse> = self.app.wrap().query_wasm_smart(t, &Cw20QueryMsg::Minter {}).unwrap();
            let mut allow = vec![];
            for o in self.users.iter() {
                for sp in spenders.iter() {
                    let r: cw20::AllowanceResponse = self
                        .app
                        .wrap()
                        .query_wasm_smart(t, &Cw20QueryMsg::Allowance { owner: o.clone(), spender: sp.clone() })
                        .unwrap();
                    if !r.allowance.is_zero() {
                        allow.push(json!({"owner": o, "spender": sp, "amount": j128(r.allowance.u128())}));
                    }
                }
            }
            tok.insert(
                t.clone(),
                json!({"bal": bal, "supply": j128(ti.total_supply.u128()), "decimals": ti.decimals,
                       "minter": minter.map(|m| m.minter).unwrap_or_default(), "allow": allow}),
            );
        }
        let mut pairs = vec![];
        for p in self.pairs.iter() {
            let pi: PairInfo = self.app.wrap().query_wasm_smart(&p.addr, &PairQuery::Pair {}).unwrap();
            pairs.push(json!({
                "addr": p.addr,
                "a0": jinfo(&pi.asset_infos[0]), "a1": jinfo(&pi.asset_infos[1]),
                "d0": pi.asset_decimals[0], "d1": pi.asset_decimals[1],
                // the LP token is the cw20 contract the factory recorded when the pair was created; what the pair
                // itself reports is observed separately
                "lp": p.lp,
                "self_lp": pi.liquidity_token,
                "commission": j256(&pi.commission_rate.0),
                "wl": pi.requirements.whitelist.iter().map(|a| a.to_string()).collect::<Vec<String>>(),
                "m0": j128(pi.requirements.first_asset_minimum.u128()),
                "m1": j128(pi.requirements.second_asset_minimum.u128()),
                "self_addr": pi.contract_addr,
            }));
        }
        // contracts are numbered in instantiation order: factory, router, tokens, then (pair, LP token) per pair
        let nextc = 2 + self.tokens.len() + 2 * self.pairs.len();
        json!({"bank": bank, "tok": tok, "pair": pairs, "fac": self.factory_state(), "router": self.router,
               "nextc": nextc, "light": self.light})
    }

    // -----------------------------------------------------------------------------------------
    // operations
    // -----------------------------------------------------------------------------------------
    fn funds_of(&self, v: &Value) -> Vec<Coin> {
        v.as_array()
            .map(|a| a.iter().map(|c| Coin { denom: s(&c[0]), amount: amt(&c[1]) }).collect())
            .unwrap_or_default()
    }

    fn pair_hook(&self, h: &Value) -> Binary {
        match h["kind"].as_str().unwrap_or("garbage") {
            "swap" => to_binary(&PairHook::Swap {
                offer_asset: asset_of(self, &h["offer"]),
                belief_price: opt_dec(&h["bp"]),
                max_spread: opt_dec(&h["ms"]),
                to: opt_str(&h["to"]).map(|x| self.resolve(&x)),
            })
            .unwrap(),
            "withdraw" => to_binary(&PairHook::WithdrawLiquidity {}).unwrap(),
            "router_ops" => to_binary(&RouterHook::ExecuteSwapOperations {
                operations: self.operations(&h["operations"]),
                minimum_receive: opt_amt(&h["min"]),
                to: opt_str(&h["to"]).map(|x| self.resolve(&x)),
            })
            .unwrap(),
            _ => Binary::from(b"{\"garbage\":{}}".to_vec()),
        }
    }

    fn operations(&self, v: &Value) -> Vec<SwapOperation> {
        v.as_array()
            .unwrap()
            .iter()
            .map(|o| SwapOperation::HaloSwap {
                offer_asset_info: info_of(self, &o["offer_info"]),
                ask_asset_info: info_of(self, &o["ask_info"]),
            })
            .collect()
    }

    fn to_msg(&self, op: &Value) -> Result<(String, CosmosMsg), String> {
        let kind = s(&op["op"]);
        let caller = self.resolve(&s(&op["caller"]));
        let wasm = |contract: String, msg: Binary, funds: Vec<Coin>| {
            CosmosMsg::Wasm(WasmMsg::Execute { contract_addr: contract, msg, funds })
        };
        let msg = match kind.as_str() {
            "bank_send" => CosmosMsg::Bank(BankMsg::Send { to_address: self.resolve(&s(&op["dest"])), amount: self.funds_of(&op["coins"]) }),
            "cw20_transfer" => wasm(
                self.resolve(&s(&op["token"])),
                to_binary(&Cw20ExecuteMsg::Transfer { recipient: self.resolve(&s(&op["dest"])), amount: amt(&op["amount"]) }).unwrap(),
                vec![],
            ),
            "cw20_burn" => wasm(
                self.resolve(&s(&op["token"])),
                to_binary(&Cw20ExecuteMsg::Burn { amount: amt(&op["amount"]) }).unwrap(),
                vec![],
            ),
            "cw20_increase_allowance" => wasm(
                self.resolve(&s(&op["token"])),
                to_binary(&Cw20ExecuteMsg::IncreaseAllowance { spender: self.resolve(&s(&op["spender"])), amount: amt(&op["amount"]), expires: None }).unwrap(),
                vec![],
            ),
            "cw20_decrease_allowance" => wasm(
                self.resolve(&s(&op["token"])),
                to_binary(&Cw20ExecuteMsg::DecreaseAllowance { spender: self.resolve(&s(&op["spender"])), amount: amt(&op["amount"]), expires: None }).unwrap(),
                vec![],
            ),
            "cw20_send" => wasm(
                self.resolve(&s(&op["token"])),
                to_binary(&Cw20ExecuteMsg::Send { contract: self.resolve(&s(&op["contract"])), amount: amt(&op["amount"]), msg: self.pair_hook(&op["hook"]) }).unwrap(),
                vec![],
            ),
            "pair_provide" => wasm(
                self.resolve(&s(&op["pair"])),
                to_binary(&PairExec::ProvideLiquidity {
                    assets: [asset_of(self, &op["assets"][0]), asset_of(self, &op["assets"][1])],
                    slippage_tolerance: opt_dec(&op["tol"]),
                    receiver: opt_str(&op["receiver"]).map(|x| self.resolve(&x)),
                })
                .unwrap(),
                self.funds_of(&op["funds"]),
            ),
            "pair_swap" => wasm(
                self.resolve(&s(&op["pair"])),
                to_binary(&PairExec::Swap {
                    offer_asset: asset_of(self, &op["offer"]),
                    belief_price: opt_dec(&op["bp"]),
                    max_spread: opt_dec(&op["ms"]),
                    to: opt_str(&op["to"]).map(|x| self.resolve(&x)),
                })
                .unwrap(),
                self.funds_of(&op["funds"]),
            ),
            "pair_receive" => wasm(
                self.resolve(&s(&op["pair"])),
                to_binary(&PairExec::Receive(cw20::Cw20ReceiveMsg {
                    sender: self.resolve(&s(&op["sender"])),
                    amount: amt(&op["amount"]),
                    msg: self.pair_hook(&op["hook"]),
                }))
                .unwrap(),
                self.funds_of(&op["funds"]),
            ),
            "pair_update_decimals" => wasm(
                self.resolve(&s(&op["pair"])),
                to_binary(&PairExec::UpdateNativeTokenDecimals {
                    denom: s(&op["denom"]),
                    asset_decimals: [op["decimals"][0].as_u64().unwrap() as u8, op["decimals"][1].as_u64().unwrap() as u8],
                })
                .unwrap(),
                vec![],
            ),
            "fac_update_config" => wasm(
                self.factory.clone(),
                to_binary(&FacExec::UpdateConfig {
                    owner: opt_str(&op["new_owner"]).map(|x| self.resolve(&x)),
                    token_code_id: op["token_code_id"].as_u64(),
                    pair_code_id: op["pair_code_id"].as_u64(),
                })
                .unwrap(),
                vec![],
            ),
            "fac_create_pair" => wasm(
                self.factory.clone(),
                to_binary(&FacExec::CreatePair {
                    asset_infos: [info_of(self, &op["infos"][0]), info_of(self, &op["infos"][1])],
                    requirements: CreatePairRequirements {
                        whitelist: op["whitelist"].as_array().map(|a| a.iter().map(|x| Addr::unchecked(self.resolve(&s(x)))).collect()).unwrap_or_default(),
                        first_asset_minimum: opt_amt(&op["min0"]).unwrap_or_default(),
                        second_asset_minimum: opt_amt(&op["min1"]).unwrap_or_default(),
                    },
                    commission_rate: opt_amt(&op["commission"]).map(|a| bignumber::Decimal256(u256_from_u128(a.u128()))),
                    lp_token_info: LPTokenInfo { lp_token_name: "halo lp".into(), lp_token_symbol: "HLP".into(), lp_token_decimals: None },
                })
                .unwrap(),
                vec![],
            ),
            "fac_add_native" => wasm(
                self.factory.clone(),
                to_binary(&FacExec::AddNativeTokenDecimals { denom: s(&op["denom"]), decimals: op["decimals"].as_u64().unwrap() as u8 }).unwrap(),
                vec![],
            ),
            "fac_migrate_pair" => wasm(
                self.factory.clone(),
                to_binary(&FacExec::MigratePair { contract: self.resolve(&s(&op["contract"])), code_id: op["code_id"].as_u64() }).unwrap(),
                vec![],
            ),
            "router_ops" => wasm(
                self.router.clone(),
                to_binary(&RouterExec::ExecuteSwapOperations {
                    operations: self.operations(&op["operations"]),
                    minimum_receive: opt_amt(&op["min"]),
                    to: opt_str(&op["to"]).map(|x| self.resolve(&x)),
                })
                .unwrap(),
                self.funds_of(&op["funds"]),
            ),
            "router_op" => wasm(
                self.router.clone(),
                to_binary(&RouterExec::ExecuteSwapOperation {
                    operation: self.operations(&json!([op["operation"]]))[0].clone(),
                    to: opt_str(&op["to"]).map(|x| self.resolve(&x)),
                })
                .unwrap(),
                self.funds_of(&op["funds"]),
            ),
            "router_assert_min" => wasm(
                self.router.clone(),
                to_binary(&RouterExec::AssertMinimumReceive {
                    asset_info: info_of(self, &op["info"]),
                    prev_balance: amt(&op["prev"]),
                    minimum_receive: amt(&op["minimum"]),
                    receiver: self.resolve(&s(&op["recv"])),
                })
                .unwrap(),
                vec![],
            ),
            "router_receive" => wasm(
                self.router.clone(),
                to_binary(&RouterExec::Receive(cw20::Cw20ReceiveMsg {
                    sender: self.resolve(&s(&op["sender"])),
                    amount: amt(&op["amount"]),
                    msg: self.pair_hook(&op["hook"]),
                }))
                .unwrap(),
                vec![],
            ),
            other => return Err(format!("unknown op {}", other)),
        };
        Ok((caller, msg))
    }

    fn response_events(res: &AppResponse) -> Value {
        let mut evs = vec![];
        for e in res.events.iter() {
            if e.ty == "wasm" {
                let mut m = Map::new();
                m.insert("action".to_string(), Value::String(String::new()));
                for a in e.attributes.iter() {
                    let key = if a.key == "_contract_addr" { "contract".to_string() } else { a.key.clone() };
                    let v = &a.value;
                    let val = if !v.is_empty() && v.len() <= 39 && v.bytes().all(|b| b.is_ascii_digit()) {
                        j128(v.parse::<u128>().unwrap())
                    } else {
                        Value::String(v.clone())
                    };
                    m.insert(key, val);
                }
                evs.push(Value::Object(m));
            }
        }
        Value::Array(evs)
    }

    /// execute one transaction-like operation; returns (result, is_query)
    pub fn exec(&mut self, op: &Value) -> (Value, bool) {
        let kind = s(&op["op"]);
        if kind.starts_with("q_") {
            return (self.query(op), true);
        }
        let (caller, msg) = match self.to_msg(op) {
            Ok(x) => x,
            Err(e) => panic!("{}", e),
        };
        let app = &mut self.app;
        let r = catch_unwind(AssertUnwindSafe(|| app.execute(Addr::unchecked(caller), msg)));
        let res = match r {
            Ok(Ok(resp)) => json!({"ok": true, "why": "", "events": Self::response_events(&resp)}),
            Ok(Err(e)) => {
                let text = format!("{:#}", e);
                json!({"ok": false, "why": classify_error(&text), "events": [], "text": text})
            }
            Err(_) => json!({"ok": false, "why": "panic", "events": [], "text": "panic"}),
        };
        if res["ok"].as_bool().unwrap() && (kind == "fac_create_pair") {
            self.created += 1;
            self.note_new_pairs();
            // the registry is projected from the factory's raw storage; if a successful creation left no
            // readable entry the storage layout is not the one this harness knows: a tool error, never a verdict
            if self.registry().len() < self.created.min(1) {
                eprintln!("harness: raw-storage projection of the factory registry is empty after a successful CreatePair");
                std::process::exit(3);
            }
        }
        (res, false)
    }

    fn jq<T: serde::de::DeserializeOwned>(&self, contract: &str, msg: &impl serde::Serialize) -> Result<T, String> {
        let app = &self.app;
        match catch_unwind(AssertUnwindSafe(|| app.wrap().query_wasm_smart::<T>(contract, msg))) {
            Ok(Ok(v)) => Ok(v),
            Ok(Err(e)) => Err(format!("{}", e)),
            Err(_) => Err("panic".to_string()),
        }
    }

    fn jpair(&self, p: &PairInfo) -> Value {
        json!({"a0": jinfo(&p.asset_infos[0]), "a1": jinfo(&p.asset_infos[1]), "pair": p.contract_addr, "lp": p.liquidity_token,
               "d0": p.asset_decimals[0], "d1": p.asset_decimals[1], "commission": j256(&p.commission_rate.0),
               "wl": p.requirements.whitelist.iter().map(|a| a.to_string()).collect::<Vec<String>>(),
               "m0": j128(p.requirements.first_asset_minimum.u128()), "m1": j128(p.requirements.second_asset_minimum.u128())})
    }

    pub fn query(&self, op: &Value) -> Value {
        let kind = s(&op["op"]);
        let fail = |e: String| json!({"ok": false, "why": if e == "panic" { "panic".to_string() } else { classify_error(&e) }, "text": e});
        match kind.as_str() {
            "q_simulation" => {
                match self.jq::<haloswap::pair::SimulationResponse>(&self.resolve(&s(&op["pair"])), &PairQuery::Simulation { offer_asset: asset_of(self, &op["offer"]) }) {
                    Ok(r) => json!({"ok": true, "ret": j128(r.return_amount.u128()), "spread": j128(r.spread_amount.u128()), "comm": j128(r.commission_amount.u128())}),
                    Err(e) => fail(e),
                }
            }
            "q_reverse" => {
                match self.jq::<haloswap::pair::ReverseSimulationResponse>(&self.resolve(&s(&op["pair"])), &PairQuery::ReverseSimulation { ask_asset: asset_of(self, &op["ask"]) }) {
                    Ok(r) => json!({"ok": true, "offer": j128(r.offer_amount.u128()), "spread": j128(r.spread_amount.u128()), "comm": j128(r.commission_amount.u128())}),
                    Err(e) => fail(e),
                }
            }
            "q_pool" => {
                match self.jq::<haloswap::pair::PoolResponse>(&self.resolve(&s(&op["pair"])), &PairQuery::Pool {}) {
                    Ok(r) => json!({"ok": true, "r0": j128(r.assets[0].amount.u128()), "r1": j128(r.assets[1].amount.u128()),
                                    "i0": jinfo(&r.assets[0].info), "i1": jinfo(&r.assets[1].info), "share": j128(r.total_share.u128())}),
                    Err(e) => fail(e),
                }
            }
            "q_router_sim" => {
                match self.jq::<haloswap::router::SimulateSwapOperationsResponse>(&self.router, &RouterQuery::SimulateSwapOperations { offer_amount: amt(&op["amount"]), operations: self.operations(&op["operations"]) }) {
                    Ok(r) => json!({"ok": true, "amount": j128(r.amount.u128())}),
                    Err(e) => fail(e),
                }
            }
            "q_router_rev" => {
                match self.jq::<haloswap::router::SimulateSwapOperationsResponse>(&self.router, &RouterQuery::ReverseSimulateSwapOperations { ask_amount: amt(&op["amount"]), operations: self.operations(&op["operations"]) }) {
                    Ok(r) => json!({"ok": true, "amount": j128(r.amount.u128())}),
                    Err(e) => fail(e),
                }
            }
            "q_router_sim_fold" | "q_router_rev_fold" => {
                let forward = kind == "q_router_sim_fold";
                let ops = self.operations(&op["operations"]);
                let amount = amt(&op["amount"]);
                let router: Value = if forward {
                    match self.jq::<haloswap::router::SimulateSwapOperationsResponse>(&self.router, &RouterQuery::SimulateSwapOperations { offer_amount: amount, operations: ops.clone() }) {
                        Ok(r) => json!({"ok": true, "amount": j128(r.amount.u128())}),
                        Err(_) => json!({"ok": false, "amount": []}),
                    }
                } else {
                    match self.jq::<haloswap::router::SimulateSwapOperationsResponse>(&self.router, &RouterQuery::ReverseSimulateSwapOperations { ask_amount: amount, operations: ops.clone() }) {
                        Ok(r) => json!({"ok": true, "amount": j128(r.amount.u128())}),
                        Err(_) => json!({"ok": false, "amount": []}),
                    }
                };
                // hop-by-hop composition of the pair queries, pairs found in the raw registry
                let reg = self.registry();
                let find = |x: &AssetInfo, y: &AssetInfo| -> Option<String> {
                    let (jx, jy) = (jinfo(x), jinfo(y));
                    reg.iter().find(|e| (e["a0"] == jx && e["a1"] == jy) || (e["a0"] == jy && e["a1"] == jx)).map(|e| s(&e["pair"]))
                };
                let mut cur = amount;
                let mut ok = !ops.is_empty();
                let seq: Vec<SwapOperation> = if forward { ops.clone() } else { ops.iter().rev().cloned().collect() };
                for o in seq.iter() {
                    let SwapOperation::HaloSwap { offer_asset_info, ask_asset_info } = o;
                    let pair = match find(offer_asset_info, ask_asset_info) { Some(p) => p, None => { ok = false; break; } };
                    if forward {
                        match self.jq::<haloswap::pair::SimulationResponse>(&pair, &PairQuery::Simulation { offer_asset: Asset { info: offer_asset_info.clone(), amount: cur } }) {
                            Ok(r) => cur = r.return_amount,
                            Err(_) => { ok = false; break; }
                        }
                    } else {
                        match self.jq::<haloswap::pair::ReverseSimulationResponse>(&pair, &PairQuery::ReverseSimulation { ask_asset: Asset { info: ask_asset_info.clone(), amount: cur } }) {
                            Ok(r) => cur = r.offer_amount,
                            Err(_) => { ok = false; break; }
                        }
                    }
                }
                let fold = if ok { json!({"ok": true, "amount": j128(cur.u128())}) } else { json!({"ok": false, "amount": []}) };
                json!({"ok": true, "router": router, "fold": fold})
            }
            "q_fac_pair" => {
                match self.jq::<PairInfo>(&self.factory, &FacQuery::Pair { asset_infos: [info_of(self, &op["infos"][0]), info_of(self, &op["infos"][1])] }) {
                    Ok(p) => json!({"ok": true, "rec": self.jpair(&p)}),
                    Err(e) => fail(e),
                }
            }
            "q_fac_pairs" => {
                let start = if op["start_after"].is_null() { None } else { Some([info_of(self, &op["start_after"][0]), info_of(self, &op["start_after"][1])]) };
                match self.jq::<haloswap::factory::PairsResponse>(&self.factory, &FacQuery::Pairs { start_after: start, limit: op["limit"].as_u64().map(|x| x as u32) }) {
                    Ok(r) => json!({"ok": true, "page": r.pairs.iter().map(|p| self.jpair(p)).collect::<Vec<Value>>()}),
                    Err(e) => fail(e),
                }
            }
            "q_fac_walk" => {
                // complete page walk: continue after the last pair returned until an empty page
                let limit = op["limit"].as_u64().map(|x| x as u32);
                let mut pages: Vec<Value> = vec![];
                let mut cursor: Option<[AssetInfo; 2]> = None;
                let mut guard_n = 0;
                loop {
                    guard_n += 1;
                    if guard_n > 200 {
                        return json!({"ok": true, "pages": pages, "ended": false});
                    }
                    match self.jq::<haloswap::factory::PairsResponse>(&self.factory, &FacQuery::Pairs { start_after: cursor.clone(), limit }) {
                        Ok(r) => {
                            if r.pairs.is_empty() {
                                break;
                            }
                            cursor = Some(r.pairs.last().unwrap().asset_infos.clone());
                            pages.push(Value::Array(r.pairs.iter().map(|p| self.jpair(p)).collect()));
                        }
                        Err(e) => return fail(e),
                    }
                }
                json!({"ok": true, "pages": pages, "ended": true})
            }
            "q_native_decimals" => {
                match self.jq::<haloswap::factory::NativeTokenDecimalsResponse>(&self.factory, &FacQuery::NativeTokenDecimals { denom: s(&op["denom"]) }) {
                    Ok(r) => json!({"ok": true, "decimals": r.decimals}),
                    Err(e) => fail(e),
                }
            }
            "q_fac_config" => {
                match self.jq::<haloswap::factory::ConfigResponse>(&self.factory, &FacQuery::Config {}) {
                    Ok(r) => json!({"ok": true, "owner": r.owner, "pair_code": r.pair_code_id, "token_code": r.token_code_id}),
                    Err(e) => fail(e),
                }
            }
            other => panic!("unknown query {}", other),
        }
    }

    pub fn key_bytes(&self) -> Value {
        // registry-key bytes of every asset identifier (denom bytes; MockApi canonical bytes for contracts)
        let mut m = Map::new();
        for d in self.denoms.iter() {
            // denoms under "n:<denom>" (a denom may be spelled like a contract address)
            m.insert(format!("n:{}", d), json!(d.as_bytes().iter().map(|b| *b as u32).collect::<Vec<u32>>()));
        }
        let mut names: Vec<String> = self.accounts();
        for p in self.pairs.iter() {
            names.push(p.addr.clone());
            names.push(p.lp.clone());
        }
        let n = 2 + self.tokens.len() + 2 * self.pairs.len();
        for i in n..(n + 100) {
            names.push(format!("contract{}", i));
        }
        for a in names.iter() {
            if let Ok(c) = MockApi::default().addr_canonicalize(a) {
                m.insert(a.clone(), json!(c.as_slice().iter().map(|b| *b as u32).collect::<Vec<u32>>()));
            }
        }
        Value::Object(m)
    }
}

/// run a scenario file: {"setup": {...}, "ops": [...]} -> trace events
pub fn run_scenario(sc: &Value, out: &mut dyn std::io::Write, tag: &str) -> std::io::Result<usize> {
    let mut w = World::build(&sc["setup"]);
    let mut n = 0;
    let names: Map<String, Value> = w.names.iter().map(|(k, v)| (k.clone(), Value::String(v.clone()))).collect();
    writeln!(
        out,
        "{}",
        json!({"k": "reset", "tag": tag, "setup": sc["setup"], "world": w.project(), "accounts": w.accounts(), "users": w.users, "names": names,
               "bytes": w.key_bytes(), "h": format!("reset {}", tag)})
    )?;
    n += 1;
    for (i, op) in sc["ops"].as_array().unwrap().iter().enumerate() {
        let (res, is_q) = w.exec(op);
        let view = tla_view(&w, op);
        let h = format!("{}#{} {}", tag, i, op);
        if is_q {
            writeln!(out, "{}", json!({"k": "q", "op": view, "ans": res, "h": h, "raw": op}))?;
        } else {
            writeln!(out, "{}", json!({"k": "tx", "op": view, "res": res, "post": w.project(), "bytes": w.key_bytes(), "h": h, "raw": op}))?;
        }
        n += 1;
    }
    Ok(n)
}

//! Function-level driver: calls the real pure functions of the repository (pricing, guards,
//! 256-bit arithmetic) on structured and boundary operands and records one event per call.
//! A panic inside the code under test is data, not a harness failure.

use crate::num::*;
use bigint::U256;
use bignumber::{Decimal256, Uint256};
use cosmwasm_std::{Decimal, Uint128};
use haloswap::error::ContractError;
use serde_json::{json, Value};
use std::io::Write;
use std::panic::{catch_unwind, AssertUnwindSafe};

pub fn guard<T>(f: impl FnOnce() -> T) -> Option<T> {
    catch_unwind(AssertUnwindSafe(f)).ok()
}

fn dec256(atomics: u128) -> Decimal256 {
    Decimal256(u256_from_u128(atomics))
}

fn dec128(atomics: u128) -> Decimal {
    Decimal::from_atomics(Uint128::new(atomics), 18).unwrap()
}

pub fn err_class(e: &ContractError) -> String {
    match e {
        ContractError::MaxSpreadAssertion {} => "err:Max spread assertion".to_string(),
        ContractError::MaxSlippageAssertion {} => "err:Max slippage assertion".to_string(),
        ContractError::Unauthorized {} => "err:Unauthorized".to_string(),
        ContractError::AssetMismatch {} => "err:Asset mismatch".to_string(),
        ContractError::InvalidZeroAmount {} => "err:Invalid zero amount".to_string(),
        other => format!("err:other:{}", other),
    }
}

// ---------------------------------------------------------------------------------------------
// bindings: the direct calls of the repository's pure functions, one cargo feature each.  When a change to the
// repository alters one of these signatures the harness is rebuilt without that feature (lib/verif/core.py): the
// function-level events of that kind are not produced and the property is decided at system level only, instead
// of the whole check failing to build.
// ---------------------------------------------------------------------------------------------
pub fn bound(kind: &str) -> bool {
    match kind {
        "swap" | "swapmono" => cfg!(feature = "fn_swap"),
        "reverse" => cfg!(feature = "fn_reverse"),
        "share" => cfg!(feature = "fn_share"),
        "maxspread" => cfg!(feature = "fn_maxspread"),
        "slip" => cfg!(feature = "fn_slip"),
        _ => true,
    }
}

#[cfg(feature = "fn_swap")]
fn bind_swap(x: u128, y: u128, a: u128, c: u128) -> Option<(Uint128, Uint128, Uint128)> {
    guard(|| haloswap::formulas::compute_swap(Uint128::new(x), Uint128::new(y), Uint128::new(a), dec256(c)))
}
#[cfg(not(feature = "fn_swap"))]
fn bind_swap(_x: u128, _y: u128, _a: u128, _c: u128) -> Option<(Uint128, Uint128, Uint128)> {
    unreachable!("compute_swap is not bound in this build")
}

#[cfg(feature = "fn_reverse")]
fn bind_reverse(x: u128, y: u128, b: u128, c: u128) -> Option<(Uint128, Uint128, Uint128)> {
    guard(|| haloswap::formulas::compute_offer_amount(Uint128::new(x), Uint128::new(y), Uint128::new(b), dec256(c)))
}
#[cfg(not(feature = "fn_reverse"))]
fn bind_reverse(_x: u128, _y: u128, _b: u128, _c: u128) -> Option<(Uint128, Uint128, Uint128)> {
    unreachable!("compute_offer_amount is not bound in this build")
}

#[cfg(feature = "fn_share")]
#[allow(clippy::too_many_arguments)]
fn bind_share(s: u128, d0: u128, d1: u128, r0: u128, r1: u128, wl: bool, m0: u128, m1: u128) -> Option<Result<Uint128, ContractError>> {
    use cosmwasm_std::{Addr, CanonicalAddr, MessageInfo};
    use haloswap::asset::{Asset, AssetInfo, AssetInfoRaw, CreatePairRequirements, PairInfoRaw};
    let sender = Addr::unchecked("provider");
    let info = MessageInfo { sender: sender.clone(), funds: vec![] };
    let pair = PairInfoRaw {
        asset_infos: [
            AssetInfoRaw::NativeToken { denom: "ua".into() },
            AssetInfoRaw::NativeToken { denom: "ub".into() },
        ],
        contract_addr: CanonicalAddr::from(vec![1u8]),
        liquidity_token: CanonicalAddr::from(vec![2u8]),
        asset_decimals: [6, 6],
        requirements: CreatePairRequirements {
            whitelist: if wl { vec![sender] } else { vec![Addr::unchecked("someone-else")] },
            first_asset_minimum: Uint128::new(m0),
            second_asset_minimum: Uint128::new(m1),
        },
        commission_rate: dec256(3_000_000_000_000_000),
    };
    let pools = [
        Asset { info: AssetInfo::NativeToken { denom: "ua".into() }, amount: Uint128::new(r0) },
        Asset { info: AssetInfo::NativeToken { denom: "ub".into() }, amount: Uint128::new(r1) },
    ];
    guard(|| {
        haloswap::formulas::calculate_lp_token_amount_to_user(&info, &pair, Uint128::new(s), [Uint128::new(d0), Uint128::new(d1)], pools)
    })
}
#[cfg(not(feature = "fn_share"))]
#[allow(clippy::too_many_arguments)]
fn bind_share(_s: u128, _d0: u128, _d1: u128, _r0: u128, _r1: u128, _wl: bool, _m0: u128, _m1: u128) -> Option<Result<Uint128, ContractError>> {
    unreachable!("calculate_lp_token_amount_to_user is not bound in this build")
}

#[cfg(feature = "fn_maxspread")]
#[allow(clippy::too_many_arguments)]
fn bind_maxspread(bp: Option<u128>, ms: Option<u128>, offer: u128, ret: u128, spread: u128, od: u8, rd: u8) -> Option<Result<(), ContractError>> {
    use haloswap::asset::{Asset, AssetInfo};
    guard(|| {
        halo_pair::assert::assert_max_spread(
            bp.map(dec128),
            ms.map(dec128),
            Asset { info: AssetInfo::NativeToken { denom: "ua".into() }, amount: Uint128::new(offer) },
            Asset { info: AssetInfo::NativeToken { denom: "ub".into() }, amount: Uint128::new(ret) },
            Uint128::new(spread),
            od,
            rd,
        )
    })
}
#[cfg(not(feature = "fn_maxspread"))]
#[allow(clippy::too_many_arguments)]
fn bind_maxspread(_bp: Option<u128>, _ms: Option<u128>, _offer: u128, _ret: u128, _spread: u128, _od: u8, _rd: u8) -> Option<Result<(), ContractError>> {
    unreachable!("assert_max_spread is not bound in this build")
}

#[cfg(feature = "fn_slip")]
fn bind_slip(t: Option<u128>, d0: u128, d1: u128, r0: u128, r1: u128) -> Option<Result<(), ContractError>> {
    use haloswap::asset::{Asset, AssetInfo};
    let pools = [
        Asset { info: AssetInfo::NativeToken { denom: "ua".into() }, amount: Uint128::new(r0) },
        Asset { info: AssetInfo::NativeToken { denom: "ub".into() }, amount: Uint128::new(r1) },
    ];
    guard(|| halo_pair::assert::assert_slippage_tolerance(&t.map(dec128), &[Uint128::new(d0), Uint128::new(d1)], &pools))
}
#[cfg(not(feature = "fn_slip"))]
fn bind_slip(_t: Option<u128>, _d0: u128, _d1: u128, _r0: u128, _r1: u128) -> Option<Result<(), ContractError>> {
    unreachable!("assert_slippage_tolerance is not bound in this build")
}

// ---------------------------------------------------------------------------------------------
// calls
// ---------------------------------------------------------------------------------------------
pub fn call_swap(x: u128, y: u128, a: u128, c: u128) -> Value {
    match bind_swap(x, y, a, c) {
        Some((r, s, k)) => json!({"ok": true, "ret": j128(r.u128()), "spread": j128(s.u128()), "comm": j128(k.u128())}),
        None => json!({"ok": false, "ret": [], "spread": [], "comm": []}),
    }
}

pub fn ev_swap(x: u128, y: u128, a: u128, c: u128) -> Value {
    json!({"k": "swap", "x": j128(x), "y": j128(y), "a": j128(a), "c": j128(c), "r": call_swap(x, y, a, c),
           "args": [x.to_string(), y.to_string(), a.to_string(), c.to_string()],
           "h": format!("x={} y={} a={} c={}", x, y, a, c)})
}

pub fn ev_swapmono(x: u128, y: u128, a1: u128, a2: u128, c: u128) -> Value {
    json!({"k": "swapmono", "x": j128(x), "y": j128(y), "a1": j128(a1), "a2": j128(a2), "c": j128(c),
           "r1": call_swap(x, y, a1, c), "r2": call_swap(x, y, a2, c),
           "args": [x.to_string(), y.to_string(), a1.to_string(), a2.to_string(), c.to_string()],
           "h": format!("x={} y={} a1={} a2={} c={}", x, y, a1, a2, c)})
}

pub fn ev_reverse(x: u128, y: u128, b: u128, c: u128) -> Value {
    let r = match bind_reverse(x, y, b, c) {
        Some((o, s, k)) => json!({"ok": true, "offer": j128(o.u128()), "spread": j128(s.u128()), "comm": j128(k.u128())}),
        None => json!({"ok": false, "offer": [], "spread": [], "comm": []}),
    };
    json!({"k": "reverse", "x": j128(x), "y": j128(y), "b": j128(b), "c": j128(c), "r": r,
           "args": [x.to_string(), y.to_string(), b.to_string(), c.to_string()],
           "h": format!("x={} y={} ask={} c={}", x, y, b, c)})
}

#[allow(clippy::too_many_arguments)]
pub fn ev_share(s: u128, d0: u128, d1: u128, r0: u128, r1: u128, wl: bool, m0: u128, m1: u128) -> Value {
    let res = bind_share(s, d0, d1, r0, r1, wl, m0, m1);
    let r = match res {
        Some(Ok(v)) => json!({"ok": true, "v": j128(v.u128()), "why": ""}),
        Some(Err(e)) => json!({"ok": false, "v": [], "why": err_class(&e)}),
        None => json!({"ok": false, "v": [], "why": "panic"}),
    };
    json!({"k": "share", "S": j128(s), "d0": j128(d0), "d1": j128(d1), "r0": j128(r0), "r1": j128(r1),
           "wl": wl, "m0": j128(m0), "m1": j128(m1), "r": r,
           "args": [s.to_string(), d0.to_string(), d1.to_string(), r0.to_string(), r1.to_string(), (wl as u8).to_string(), m0.to_string(), m1.to_string()],
           "h": format!("S={} d=({},{}) r=({},{}) wl={} min=({},{})", s, d0, d1, r0, r1, wl, m0, m1)})
}

fn sopt(v: Option<u128>) -> String {
    match v {
        Some(x) => x.to_string(),
        None => "none".to_string(),
    }
}

fn popt(s: &str) -> Option<u128> {
    if s == "none" { None } else { Some(s.parse().expect("u128")) }
}

/// re-execute one recorded call from its decimal arguments (replay files)
pub fn replay(kind: &str, args: &[String]) -> Value {
    if !bound(kind) {
        eprintln!("the code function behind '{}' events is not bound in this build", kind);
        std::process::exit(2);
    }
    let p = |i: usize| -> u128 { args[i].parse().expect("u128 argument") };
    match kind {
        "swap" => ev_swap(p(0), p(1), p(2), p(3)),
        "swapmono" => ev_swapmono(p(0), p(1), p(2), p(3), p(4)),
        "reverse" => ev_reverse(p(0), p(1), p(2), p(3)),
        "share" => ev_share(p(0), p(1), p(2), p(3), p(4), p(5) == 1, p(6), p(7)),
        "maxspread" => ev_maxspread(popt(&args[0]), popt(&args[1]), p(2), p(3), p(4), p(5) as u8, p(6) as u8),
        "slip" => ev_slip(popt(&args[0]), p(1), p(2), p(3), p(4)),
        "arith" => {
            let q = |i: usize| U256::from_dec_str(&args[i]).expect("u256 argument");
            ev_arith(&args[0], &args[1], q(2), q(3), q(4))
        }
        "text" => ev_text(&args[0], U256::from_dec_str(&args[1]).expect("u256 argument"), &args[2]),
        _ => panic!("unknown math event kind {}", kind),
    }
}

fn jopt(v: Option<u128>) -> Value {
    match v {
        Some(x) => json!({"some": true, "v": j128(x)}),
        None => json!({"some": false, "v": []}),
    }
}

fn guard_result(res: Option<Result<(), ContractError>>) -> Value {
    match res {
        Some(Ok(())) => json!({"ok": true, "why": ""}),
        Some(Err(e)) => json!({"ok": false, "why": err_class(&e)}),
        None => json!({"ok": false, "why": "panic"}),
    }
}

#[allow(clippy::too_many_arguments)]
pub fn ev_maxspread(bp: Option<u128>, ms: Option<u128>, offer: u128, ret: u128, spread: u128, od: u8, rd: u8) -> Value {
    let res = bind_maxspread(bp, ms, offer, ret, spread, od, rd);
    json!({"k": "maxspread", "bp": jopt(bp), "ms": jopt(ms), "offer": j128(offer), "ret": j128(ret),
           "spread": j128(spread), "od": od, "rd": rd, "r": guard_result(res),
           "args": [sopt(bp), sopt(ms), offer.to_string(), ret.to_string(), spread.to_string(), od.to_string(), rd.to_string()],
           "h": format!("bp={:?} ms={:?} offer={} ret={} spread={} od={} rd={}", bp, ms, offer, ret, spread, od, rd)})
}

pub fn ev_slip(t: Option<u128>, d0: u128, d1: u128, r0: u128, r1: u128) -> Value {
    let res = bind_slip(t, d0, d1, r0, r1);
    json!({"k": "slip", "t": jopt(t), "d0": j128(d0), "d1": j128(d1), "r0": j128(r0), "r1": j128(r1),
           "r": guard_result(res),
           "args": [sopt(t), d0.to_string(), d1.to_string(), r0.to_string(), r1.to_string()],
           "h": format!("t={:?} d=({},{}) r=({},{})", t, d0, d1, r0, r1)})
}

fn r256(v: Option<U256>) -> Value {
    match v {
        Some(x) => json!({"ok": true, "v": j256(&x)}),
        None => json!({"ok": false, "v": []}),
    }
}

fn cmp_code(o: std::cmp::Ordering) -> i32 {
    match o {
        std::cmp::Ordering::Less => -1,
        std::cmp::Ordering::Equal => 0,
        std::cmp::Ordering::Greater => 1,
    }
}

/// one Uint256 / Decimal256 operator call
pub fn ev_arith(ty: &str, op: &str, a: U256, b: U256, c: U256) -> Value {
    let (ua, ub) = (Uint256(a), Uint256(b));
    let (da, db) = (Decimal256(a), Decimal256(b));
    let r = match (ty, op) {
        ("u256", "add") => r256(guard(|| (ua + ub).0)),
        // the compound-assignment spelling of the same sum (a separate impl in the library)
        ("u256", "addassign") => r256(guard(|| { let mut x = ua; x += ub; x.0 })),
        ("u256", "sub") => r256(guard(|| (ua - ub).0)),
        ("u256", "mul") => r256(guard(|| (ua * ub).0)),
        ("u256", "muldec") => r256(guard(|| (ua * db).0)),
        ("u256", "decmul") => r256(guard(|| (db * ua).0)),
        ("u256", "divdec") => r256(guard(|| (ua / db).0)),
        ("u256", "mulratio") => r256(guard(|| ua.multiply_ratio(b, c).0)),
        ("u256", "to128") => r256(guard(|| {
            let v: u128 = ua.into();
            u256_from_u128(v)
        })),
        ("u256", "from128") => r256(u256_to_u128(&a).and_then(|v| guard(|| Uint256::from(Uint128::new(v)).0))),
        ("u256", "cmp") => json!({"ok": true, "v": cmp_code(ua.cmp(&ub))}),
        ("dec256", "add") => r256(guard(|| (da + db).0)),
        ("dec256", "addassign") => r256(guard(|| { let mut x = da; x += db; x.0 })),
        ("dec256", "sub") => r256(guard(|| (da - db).0)),
        ("dec256", "mul") => r256(guard(|| (da * db).0)),
        ("dec256", "div") => r256(guard(|| (da / db).0)),
        ("dec256", "fromratio") => r256(guard(|| Decimal256::from_ratio(a, b).0)),
        ("dec256", "fromuint") => r256(guard(|| Decimal256::from_uint256(ua).0)),
        ("dec256", "cmp") => json!({"ok": true, "v": cmp_code(da.cmp(&db))}),
        // constructors from a machine word (the low 64 bits of a) and the zero tests
        ("dec256", "percent") => r256(guard(|| Decimal256::percent(a.low_u64()).0)),
        ("dec256", "permille") => r256(guard(|| Decimal256::permille(a.low_u64()).0)),
        ("u256", "from64") => r256(guard(|| Uint256::from(a.low_u64()).0)),
        ("u256", "iszero") => json!({"ok": true, "v": ua.is_zero() as i32}),
        ("dec256", "iszero") => json!({"ok": true, "v": da.is_zero() as i32}),
        _ => panic!("unknown arith op {} {}", ty, op),
    };
    // (the word constructors see only the low 64 bits: that is the operand the event records)
    let a = if matches!(op, "percent" | "permille" | "from64") { U256::from(a.low_u64()) } else { a };
    json!({"k": "arith", "ty": ty, "op": op, "a": j256(&a), "b": j256(&b), "c": j256(&c), "r": r,
           "args": [ty.to_string(), op.to_string(), a.to_string(), b.to_string(), c.to_string()],
           "h": format!("{} {} a={} b={} c={}", ty, op, a, b, c)})
}

// ---------------------------------------------------------------------------------------------
// C18: text, JSON and width conversions
// ---------------------------------------------------------------------------------------------
fn jstr(s: &str) -> Value {
    json!(s.as_bytes().iter().map(|b| *b as u32).collect::<Vec<u32>>())
}

fn parse_res(r: Option<Result<U256, ()>>) -> Value {
    match r {
        Some(Ok(v)) => json!({"ok": true, "v": j256(&v), "why": ""}),
        Some(Err(())) => json!({"ok": false, "v": [], "why": "err"}),
        None => json!({"ok": false, "v": [], "why": "panic"}),
    }
}

/// op: dec_render | uint_render | dec_parse | uint_parse | dec_roundtrip | uint_roundtrip |
///     dec_to128 | dec_from128 | dec_json_parse | uint_json_parse
pub fn ev_text(op: &str, v: U256, text: &str) -> Value {
    use std::str::FromStr;
    // the 128-bit source type can only hold the low 128 bits
    let v = if op == "dec_from128" || op == "uint_from128" { u256_from_u128(u256_to_u128(&v).unwrap_or(0)) } else { v };
    let body = match op {
        "dec_render" => json!({"s": jstr(&Decimal256(v).to_string())}),
        "uint_render" => {
            let a = Uint256(v).to_string();
            let b: String = Uint256(v).into();
            json!({"s": jstr(&a), "s2": jstr(&b)})
        }
        "dec_parse" => json!({"r": parse_res(guard(|| Decimal256::from_str(text).map(|d| d.0).map_err(|_| ())))}),
        "uint_parse" => {
            let a = parse_res(guard(|| Uint256::from_str(text).map(|d| d.0).map_err(|_| ())));
            let b = parse_res(guard(|| Uint256::try_from(text).map(|d| d.0).map_err(|_| ())));
            json!({"r": a, "r2": b})
        }
        "dec_json_parse" => {
            let js = serde_json::to_string(text).unwrap();
            json!({"r": parse_res(guard(|| serde_json::from_str::<Decimal256>(&js).map(|d| d.0).map_err(|_| ())))})
        }
        "uint_json_parse" => {
            let js = serde_json::to_string(text).unwrap();
            json!({"r": parse_res(guard(|| serde_json::from_str::<Uint256>(&js).map(|d| d.0).map_err(|_| ())))})
        }
        "dec_roundtrip" => {
            let d = Decimal256(v);
            let direct = parse_res(guard(|| Decimal256::from_str(&d.to_string()).map(|x| x.0).map_err(|_| ())));
            let viajson = parse_res(guard(|| {
                let js = serde_json::to_string(&d).map_err(|_| ())?;
                serde_json::from_str::<Decimal256>(&js).map(|x| x.0).map_err(|_| ())
            }));
            let viawasm = parse_res(guard(|| {
                let js = cosmwasm_std::to_vec(&d).map_err(|_| ())?;
                cosmwasm_std::from_slice::<Decimal256>(&js).map(|x| x.0).map_err(|_| ())
            }));
            json!({"r": direct, "r2": viajson, "r3": viawasm})
        }
        "uint_roundtrip" => {
            let d = Uint256(v);
            let direct = parse_res(guard(|| Uint256::from_str(&d.to_string()).map(|x| x.0).map_err(|_| ())));
            let viajson = parse_res(guard(|| {
                let js = serde_json::to_string(&d).map_err(|_| ())?;
                serde_json::from_str::<Uint256>(&js).map(|x| x.0).map_err(|_| ())
            }));
            let viawasm = parse_res(guard(|| {
                let js = cosmwasm_std::to_vec(&d).map_err(|_| ())?;
                cosmwasm_std::from_slice::<Uint256>(&js).map(|x| x.0).map_err(|_| ())
            }));
            json!({"r": direct, "r2": viajson, "r3": viawasm})
        }
        "dec_to128" => {
            // From<Decimal256> for Decimal
            let r = guard(|| {
                let d: Decimal = Decimal256(v).into();
                u256_from_u128(d.atomics().u128())
            });
            json!({"r": parse_res(r.map(Ok))})
        }
        "uint_to128" => {
            // From<Uint256> for Uint128 / u128
            let a = guard(|| {
                let x: Uint128 = Uint256(v).into();
                u256_from_u128(x.u128())
            });
            let b = guard(|| {
                let x: u128 = Uint256(v).into();
                u256_from_u128(x)
            });
            json!({"r": parse_res(a.map(Ok)), "r2": parse_res(b.map(Ok))})
        }
        "uint_from128" => {
            let a128 = u256_to_u128(&v).unwrap_or(0);
            let a = guard(|| Uint256::from(a128).0);
            let b = guard(|| Uint256::from(Uint128::new(a128)).0);
            let c = guard(|| Uint256::from(a128 as u64).0);
            json!({"r": parse_res(a.map(Ok)), "r2": parse_res(b.map(Ok)), "r3": parse_res(c.map(Ok)),
                   "low64": j128((a128 as u64) as u128)})
        }
        "dec_from128" => {
            // From<Decimal> for Decimal256 (value must fit 128 bits: taken from the low words)
            let a = u256_to_u128(&v).unwrap_or(0);
            let r = guard(|| {
                let d = Decimal::from_atomics(Uint128::new(a), 18).unwrap();
                let x: Decimal256 = d.into();
                x.0
            });
            json!({"r": parse_res(r.map(Ok))})
        }
        _ => panic!("unknown text op {}", op),
    };
    let mut e = json!({"k": "text", "op": op, "v": j256(&v), "s_in": jstr(text),
                       "args": [op.to_string(), v.to_string(), text.to_string()],
                       "h": format!("text {} v={} s={:?}", op, v, text)});
    for (k, val) in body.as_object().unwrap() {
        e[k] = val.clone();
    }
    e
}

fn gen_numeral(r: &mut Rng) -> String {
    // numerals over digits and dots: structured lengths around the 18-digit fraction limit and the 78-digit range
    let digits = |r: &mut Rng, n: usize, lead_zero: bool| -> String {
        let mut s = String::new();
        for i in 0..n {
            let rd = r.below(10);
            let d = if i == 0 && !lead_zero { r.range(1, 9) } else { *r.pick(&[0u64, 0, 1, 5, 9, rd]) };
            s.push(char::from(b'0' + d as u8));
        }
        s
    };
    match r.below(10) {
        0 => {
            let n = r.range(1, 80) as usize;
            let lz = r.chance(1, 4);
            digits(r, n, lz)
        }
        1 | 2 | 3 => {
            let nw = *r.pick(&[1usize, 1, 2, 5, 20, 40, 59, 60, 61]);
            let lz = r.chance(1, 4);
            let w = digits(r, nw, lz);
            let nf = *r.pick(&[1usize, 2, 6, 17, 18, 18, 19, 20, 30]);
            let f = digits(r, nf, true);
            format!("{}.{}", w, f)
        }
        4 => {
            // values near the maximum 115792089237316195423570985008687907853269984665640564039457.584007913129639935
            let base = "115792089237316195423570985008687907853269984665640564039457";
            let fr = *r.pick(&["584007913129639935", "584007913129639936", "584007913129639934", "6", "5", "58400791312963993"]);
            let w = if r.chance(1, 3) { "115792089237316195423570985008687907853269984665640564039458" } else { base };
            format!("{}.{}", w, fr)
        }
        5 => {
            // short strings over a tiny alphabet, dots anywhere
            let n = r.range(0, 6) as usize;
            (0..n).map(|_| *r.pick(&['0', '1', '9', '.'])).collect()
        }
        6 => {
            let (a, b, c) = (digits(r, 2, false), digits(r, 2, true), digits(r, 1, true));
            format!("{}.{}.{}", a, b, c)
        }
        7 => {
            let k = r.range(1, 18) as usize;
            format!("0.{}{}", "0".repeat(k - 1), r.range(1, 9))
        }
        8 => {
            let w = digits(r, 3, false);
            format!("{}.{}", w, "0".repeat(r.range(1, 20) as usize))
        }
        _ => {
            // uint-like huge numerals around 2^256
            let m = "115792089237316195423570985008687907853269984665640564039457584007913129639935";
            match r.below(3) { 0 => m.to_string(), 1 => format!("{}0", &m[..77]), _ => "115792089237316195423570985008687907853269984665640564039457584007913129639936".to_string() }
        }
    }
}

// ---------------------------------------------------------------------------------------------
// operand generation
// ---------------------------------------------------------------------------------------------
fn sat_inc(a: U256) -> U256 {
    if a == U256::MAX { a } else { a + U256::one() }
}

fn u(v: u128) -> U256 {
    u256_from_u128(v)
}

/// modular inverse of a modulo m (m > 1) by the extended Euclidean algorithm, None if not coprime
fn modinv(a: u128, m: u128) -> Option<u128> {
    // track coefficients modulo m using U256 arithmetic to avoid overflow
    let (mut r0, mut r1) = (m, a % m);
    let (mut t0, mut t1) = (U256::zero(), U256::one()); // t values kept reduced mod m
    let mm = u(m);
    while r1 != 0 {
        let q = r0 / r1;
        let r2 = r0 % r1;
        // t2 = t0 - q*t1 mod m
        let qt = (u(q) * t1) % mm;
        let t2 = if t0 >= qt { t0 - qt } else { mm - (qt - t0) };
        r0 = r1;
        r1 = r2;
        t0 = t1;
        t1 = t2;
    }
    if r0 != 1 {
        None
    } else {
        u256_to_u128(&(t0 % mm))
    }
}

/// inputs inside the KF-1 truncation window: 0 < (x*y mod (x+a)) * 10^18 < x + a
fn kf1_inputs(r: &mut Rng) -> Option<(u128, u128, u128)> {
    match r.below(4) {
        0 => {
            // x = y >= 10^18, a = 1: x^2 mod (x+1) = 1
            let k = r.range(18, 37) as u32;
            let x = pow10_128(k) + r.below128(pow10_128(k));
            Some((x, x, 1))
        }
        1 => {
            // tiny product, huge offer: x*y < (x+a)/10^18
            let x = r.range(1, 50) as u128;
            let y = r.range(1, 50) as u128;
            let a = x * y * D18 + 1 + r.below128(D18 * 1000);
            Some((x, y, a))
        }
        _ => {
            // general: pick the modulus M = x + a > 10^18, x coprime to M, target remainder m,
            // solve y = m * x^{-1} mod M
            let bits = r.range(62, 126) as u32;
            let mm = r.bits128(bits);
            if mm <= D18 + 2 {
                return None;
            }
            let x = 1 + r.below128(mm - 1);
            let inv = modinv(x, mm)?;
            let max_m = (mm - 1) / D18;
            if max_m == 0 {
                return None;
            }
            let m = 1 + r.below128(max_m.min(1000));
            let y = u256_to_u128(&((u(m) * u(inv)) % u(mm)))?;
            if y == 0 {
                return None;
            }
            // optionally lift y by multiples of M while it fits
            let y = if r.chance(1, 2) {
                let room = (u128::MAX - y) / mm;
                let lift = r.below128(room.min(1 << 20) + 1);
                y + lift * mm
            } else {
                y
            };
            Some((x, y, mm - x))
        }
    }
}

/// offers at which floor(y*a/(x+a)) increments: a = ceil(k*x/(y-k)) and its predecessor
fn increment_offers(x: u128, y: u128, k: u128) -> Vec<u128> {
    if k == 0 || k >= y {
        return vec![];
    }
    let num = u(k) * u(x);
    let den = u(y - k);
    let q = num / den;
    let mut out = vec![];
    if let Some(q) = u256_to_u128(&q) {
        out.push(q);
        out.push(q.saturating_add(1));
        if q > 0 {
            out.push(q - 1);
        }
    }
    out
}

pub fn run(seed: u64, n: usize, kinds: &[String], out: &mut dyn Write) -> std::io::Result<usize> {
    let mut r = Rng::new(seed);
    let mut count = 0usize;
    const KNOWN: [&str; 8] = ["swap", "reverse", "share", "maxspread", "slip", "arith", "text", "swapmono"];
    for k in kinds.iter() {
        assert!(KNOWN.contains(&k.as_str()), "unknown math event kind {}", k);
    }
    let want = |k: &str| bound(k) && (kinds.is_empty() || kinds.iter().any(|x| x == k));
    let emit = |v: Value, out: &mut dyn Write, count: &mut usize| -> std::io::Result<()> {
        writeln!(out, "{}", v)?;
        *count += 1;
        Ok(())
    };

    // fixed witnesses first (documented inputs of the known finding and of the pinned unit tests)
    if want("swap") {
        for (x, y, a, c) in [
            (2 * D18, 2 * D18, 1u128, 0u128),
            (2, 2, 10 * D18, 0),
            (340282366920938463463374607431u128, 340282366920938463463374607431u128, 1, 30_000_000_000_000_000),
            (395451850234u128, 317, 1, 30_000_000_000_000_000),
            (u128::MAX, 1, 1, 30_000_000_000_000_000),
            (1, u128::MAX, 1, 30_000_000_000_000_000),
            (1_000_000_000, 1_000_000, 1000, 3_000_000_000_000_000),
        ] {
            emit(ev_swap(x, y, a, c), out, &mut count)?;
        }
    }

    if want("text") && !kinds.is_empty() {
        // exhaustive short numerals over {0,1,9,.} up to length 4
        let alpha = ['0', '1', '9', '.'];
        let mut all: Vec<String> = vec![String::new()];
        let mut frontier = vec![String::new()];
        for _ in 0..4 {
            let mut next = vec![];
            for p in frontier.iter() {
                for c in alpha.iter() {
                    let mut q = p.clone();
                    q.push(*c);
                    next.push(q);
                }
            }
            all.extend(next.iter().cloned());
            frontier = next;
        }
        for sx in all.iter() {
            if count >= n { break; }
            emit(ev_text("dec_parse", U256::zero(), sx), out, &mut count)?;
            if count < n && r.chance(1, 3) { emit(ev_text("uint_parse", U256::zero(), sx), out, &mut count)?; }
        }
    }
    while count < n {
        if want("text") && (kinds.len() == 1 || r.chance(1, 8)) {
            let ops = ["dec_render", "uint_render", "dec_parse", "uint_parse", "dec_roundtrip", "uint_roundtrip",
                       "dec_to128", "dec_from128", "dec_json_parse", "uint_json_parse", "uint_to128", "uint_to128", "uint_from128"];
            let op = *r.pick(&ops);
            let v = match r.below(4) {
                0 => {
                    // leading / trailing fractional zeros: w * 10^18 + f * 10^k
                    let w = pal256(&mut r) / u(D18) / U256::from(2u64);
                    let k = r.range(0, 17) as u32;
                    let f = r.below128(pow10_128(18 - k));
                    w * u(D18) + u(f) * u(pow10_128(k))
                }
                _ => pal256(&mut r),
            };
            let text = gen_numeral(&mut r);
            emit(ev_text(op, v, &text), out, &mut count)?;
            continue;
        }
        let kind = r.below(100);
        if kind < 34 {
            if !want("swap") {
                continue;
            }
            // swap
            let (x, y, a) = match r.below(10) {
                0 | 1 => match kf1_inputs(&mut r) {
                    Some(t) => t,
                    None => continue,
                },
                2 | 3 => {
                    let x = pal128(&mut r).max(1);
                    let y = pal128(&mut r).max(2);
                    let k = 1 + r.below128(y.min(1 << 40) - 1);
                    let offs = increment_offers(x, y, k);
                    if offs.is_empty() {
                        continue;
                    }
                    (x, y, *r.pick(&offs))
                }
                4 => {
                    // 6-decimal production magnitudes
                    let x = r.below128(1_000_000_000_000_000) + 1;
                    let y = r.below128(1_000_000_000_000_000) + 1;
                    let a = r.below128(x / 10 + 1000) + 1;
                    (x, y, a)
                }
                _ => (pal128(&mut r), pal128(&mut r), pal128(&mut r)),
            };
            let c = if r.chance(1, 40) { D18 + 1 + r.below128(D18) } else { pal_rate(&mut r) };
            if r.chance(1, 4) {
                let a2 = if r.chance(1, 2) { a.saturating_add(1) } else { a.saturating_add(pal128(&mut r) >> 1) };
                emit(ev_swapmono(x, y, a, a2, c), out, &mut count)?;
            } else {
                emit(ev_swap(x, y, a, c), out, &mut count)?;
            }
        } else if kind < 44 {
            if !want("reverse") {
                continue;
            }
            let x = pal128(&mut r);
            let y = pal128(&mut r);
            let c = pal_rate(&mut r);
            let b = match r.below(4) {
                0 => pal128(&mut r),
                1 => r.below128(y.saturating_add(1)),
                2 => {
                    // ask near y*(1-c): the pole of the closed form
                    let lim = if c <= D18 { u256_to_u128(&(u(y) * u(D18 - c) / u(D18))).unwrap_or(0) } else { 0 };
                    lim.saturating_sub(r.below(3) as u128).saturating_add(r.below(2) as u128)
                }
                _ => r.below128((y / 2).saturating_add(1)),
            };
            emit(ev_reverse(x, y, b, c), out, &mut count)?;
        } else if kind < 54 {
            if !want("share") {
                continue;
            }
            if r.chance(1, 3) {
                // first provision
                let d0 = if r.chance(1, 2) { r.below128(1 << 64) } else { pal128(&mut r) };
                let d1 = if r.chance(1, 2) { r.below128(1 << 63) } else { pal128(&mut r) };
                let m0 = if r.chance(1, 2) { 0 } else { d0.saturating_sub(1).saturating_add(r.below(3) as u128) };
                let m1 = if r.chance(1, 2) { 0 } else { d1.saturating_sub(1).saturating_add(r.below(3) as u128) };
                emit(ev_share(0, d0, d1, 0, 0, r.chance(3, 4), m0, m1), out, &mut count)?;
            } else {
                let s = pal128(&mut r).max(1);
                let r0 = pal128(&mut r);
                let r1 = pal128(&mut r);
                let (d0, d1) = match r.below(3) {
                    0 => (pal128(&mut r), pal128(&mut r)),
                    1 => {
                        // balanced deposit: d_i = r_i * f / 2^20, +-1 (ties between the two ratios)
                        let f = r.below(1 << 20) as u128 + 1;
                        let d0 = u256_to_u128(&(u(r0) * u(f) >> 20)).unwrap_or(0);
                        let d1 = u256_to_u128(&(u(r1) * u(f) >> 20)).unwrap_or(0);
                        (d0.saturating_add(r.below(2) as u128), d1.saturating_add(r.below(2) as u128))
                    }
                    _ => (r.below128(r0.saturating_add(1)), r.below128(r1.saturating_add(1))),
                };
                emit(ev_share(s, d0, d1, r0, r1, true, 0, 0), out, &mut count)?;
            }
        } else if kind < 66 {
            if !want("maxspread") {
                continue;
            }
            let od = r.range(0, 18) as u8;
            let rd = if r.chance(1, 3) { od } else { r.range(0, 18) as u8 };
            let offer = match r.below(3) {
                0 => pal128(&mut r),
                _ => { let k = r.range(1, 90); r.below128(1u128 << k) }
            };
            let ret = match r.below(3) {
                0 => pal128(&mut r),
                _ => { let k = r.range(1, 90); r.below128(1u128 << k) }
            };
            let ms = match r.below(8) {
                0 => None,
                1 => Some(D18 + r.below128(D18)),
                _ => Some(pal_rate(&mut r)),
            };
            let with_bp = r.chance(3, 5);
            if with_bp {
                // belief price: around offer_n / ret_n so that the guard is near its limit
                let sc = |v: u128, from: u8, to: u8| -> Option<u128> {
                    if to > from { v.checked_mul(pow10_128((to - from) as u32)) } else { Some(v) }
                };
                let top = od.max(rd);
                let on = sc(offer, od, top);
                let rn = sc(ret, rd, top);
                let bp = match (on, rn, r.below(4)) {
                    (Some(on), Some(rn), 0..=2) if rn > 0 => {
                        // p ~ on * D / (rn / (1-s)) : scan around the guard boundary
                        let s = ms.unwrap_or(0).min(D18);
                        let target = (u(rn) * u(D18)) / u((D18 - s).max(1)); // expected return at the limit
                        let target = target.max(U256::one());
                        let p = (u(on) * u(D18)) / target;
                        let p = u256_to_u128(&p).unwrap_or(u128::MAX);
                        let jitter = r.below(5) as u128;
                        Some(p.saturating_add(jitter).saturating_sub(2))
                    }
                    _ => Some(pal_rate(&mut r).saturating_add(r.below128(D18 * 1000))),
                };
                let bp = if r.chance(1, 50) { Some(0) } else { bp };
                emit(ev_maxspread(bp, ms, offer, ret, pal128(&mut r) >> 64, od, rd), out, &mut count)?;
            } else {
                // spread only: spread near s*(ret+spread)
                let spread = match (ms, r.below(3)) {
                    (Some(s), 0 | 1) if s < D18 => {
                        // spread/(ret+spread) = s  =>  spread = ret*s/(D-s)
                        let v = (u(ret) * u(s)) / u(D18 - s);
                        u256_to_u128(&v).unwrap_or(u128::MAX >> 1).saturating_add(r.below(3) as u128).saturating_sub(1)
                    }
                    _ => r.below128(ret.saturating_add(2)),
                };
                emit(ev_maxspread(None, ms, offer, ret, spread, od, rd), out, &mut count)?;
            }
        } else if kind < 76 {
            if !want("slip") {
                continue;
            }
            let r0 = pal128(&mut r);
            let r1 = pal128(&mut r);
            let t = match r.below(10) {
                0 => None,
                1 => Some(D18 + 1 + r.below128(D18)),
                _ => Some(pal_rate(&mut r)),
            };
            let (d0, d1) = match r.below(3) {
                0 => (pal128(&mut r), pal128(&mut r)),
                _ => {
                    // deposits near the reserve ratio stretched by 1/(1-t)
                    let f = r.below(1 << 20) as u128 + 1;
                    let d1 = u256_to_u128(&(u(r1) * u(f) >> 20)).unwrap_or(0);
                    let tt = t.unwrap_or(0).min(D18 - 1);
                    let d0 = if r1 == 0 { 0 } else {
                        u256_to_u128(&((u(d1) * u(r0) / u(r1)) * u(D18) / u(D18 - tt))).unwrap_or(u128::MAX)
                    };
                    let d0 = d0.saturating_add(r.below(3) as u128).saturating_sub(1);
                    if r.chance(1, 2) { (d0, d1) } else { (d1, d0) }
                }
            };
            // one call in four: strongly skewed reserves (ratio 10^-9 .. 10^-18, assets of very different decimals), a small
            // tolerance, and a deposit that is off the reserve ratio by a relative 2^-10 .. 2^-24 beyond the tolerance on
            // the LARGE side - the comparison in which the small/large ratio's 18-digit truncation must not be reused
            let (t, d0, d1, r0, r1) = if r.chance(1, 4) {
                let k = r.range(9, 19) as u32;
                let s0 = r.range(1, 1_000_000) as u128;
                let s1 = s0 * 10u128.pow(k) + r.below128(10u128.pow(k - 3));
                let tt = match r.below(3) { 0 => 0, 1 => r.below128(D18 / 1000), _ => pal_rate(&mut r).min(D18 / 2) };
                let e0 = r.range(1, 10_000_000) as u128;
                let base = (u(e0) * u(s1) / u(s0)) * u(D18) / u(D18 - tt);
                let off = base >> (r.range(10, 25) as usize);
                let e1 = u256_to_u128(&(if r.chance(3, 4) { base + off } else { base - off })).unwrap_or(u128::MAX);
                let tv = if tt == 0 && r.chance(1, 2) { None } else { Some(tt) };
                if r.chance(1, 2) { (tv, e0, e1, s0, s1) } else { (tv, e1, e0, s1, s0) }
            } else {
                (t, d0, d1, r0, r1)
            };
            emit(ev_slip(t, d0, d1, r0, r1), out, &mut count)?;
        } else {
            if !want("arith") {
                continue;
            }
            let ops: [(&str, &str); 24] = [
                ("u256", "addassign"), ("dec256", "addassign"), ("dec256", "percent"), ("dec256", "permille"),
                ("u256", "from64"), ("u256", "iszero"), ("dec256", "iszero"),
                ("u256", "add"), ("u256", "sub"), ("u256", "mul"), ("u256", "muldec"), ("u256", "decmul"),
                ("u256", "divdec"), ("u256", "mulratio"), ("u256", "to128"), ("u256", "from128"), ("u256", "cmp"),
                ("dec256", "add"), ("dec256", "sub"), ("dec256", "mul"), ("dec256", "div"),
                ("dec256", "fromratio"), ("dec256", "fromuint"), ("dec256", "cmp"),
            ];
            let (ty, op) = *r.pick(&ops);
            let d18 = u(D18);
            // one call in four: operands that both fit one machine word (64 bits) or two (128 bits) while products,
            // scaled products and quotients cross the word boundary - the inputs of "fast paths" for small operands
            if r.chance(1, 4) {
                let w = if r.chance(2, 3) { 64 } else { 128 };
                let hi = |r: &mut Rng| -> U256 {
                    let bits = r.range(w as u64 - 12, w as u64) as u32;
                    let v = r.bits256(bits);
                    match r.below(6) { 0 => (U256::one() << w) - U256::one(), 1 => (U256::one() << (w - 1)), 2 => d18 * U256::from(r.range(1, 18)) + U256::from(r.below(3)), _ => v }
                };
                let (a, b, c) = (hi(&mut r), hi(&mut r), if r.chance(1, 2) { hi(&mut r) } else { d18 });
                emit(ev_arith(ty, op, a, b, c), out, &mut count)?;
                continue;
            }
            let a = pal256(&mut r);
            let a = if op == "iszero" && r.chance(1, 3) { U256::zero() } else { a };
            // partner operands on the abort boundary of the product / sum / difference involved
            let b = match r.below(6) {
                0 if !a.is_zero() => U256::MAX / a,
                1 if !a.is_zero() => sat_inc(U256::MAX / a),
                2 => U256::MAX - a,
                3 => sat_inc(U256::MAX - a),
                4 => match r.below(4) {
                    0 => a,
                    1 => sat_inc(a),
                    2 => if a.is_zero() { a } else { a - U256::one() },
                    _ => if a.is_zero() { a } else { (U256::MAX / a) / d18 },
                },
                _ => pal256(&mut r),
            };
            let c = match r.below(4) {
                0 => U256::zero(),
                1 => d18,
                _ => pal256(&mut r),
            };
            emit(ev_arith(ty, op, a, b, c), out, &mut count)?;
        }
    }
    Ok(count)
}

mod gen;
mod math;
mod num;
mod world;

use std::fs::File;
use std::io::{BufWriter, Write};

fn arg<'a>(args: &'a [String], name: &str) -> Option<&'a str> {
    args.iter().position(|a| a == name).and_then(|i| args.get(i + 1)).map(|s| s.as_str())
}

fn main() {
    // panics inside the code under test are recorded as data; keep stderr quiet
    std::panic::set_hook(Box::new(|_| {}));
    let args: Vec<String> = std::env::args().collect();
    let cmd = args.get(1).map(|s| s.as_str()).unwrap_or("");
    let seed: u64 = arg(&args, "--seed").and_then(|s| s.parse().ok()).unwrap_or(1);
    let n: usize = arg(&args, "--n").and_then(|s| s.parse().ok()).unwrap_or(1000);
    let out_path = arg(&args, "--out").unwrap_or("/dev/stdout").to_string();
    let kinds: Vec<String> = arg(&args, "--kinds")
        .map(|s| s.split(',').map(|x| x.to_string()).collect())
        .unwrap_or_default();
    let mut out = BufWriter::new(File::create(&out_path).expect("open output"));
    match cmd {
        "math" => {
            let c = math::run(seed, n, &kinds, &mut out).expect("write");
            out.flush().unwrap();
            eprintln!("math: {} events", c);
        }
        "world" => {
            let driver = arg(&args, "--driver").unwrap_or("random").to_string();
            let behaviours: usize = arg(&args, "--behaviours").and_then(|s| s.parse().ok()).unwrap_or(1);
            let steps: usize = arg(&args, "--steps").and_then(|s| s.parse().ok()).unwrap_or(40);
            let c = gen::run(&driver, seed, behaviours, steps, &mut out);
            out.flush().unwrap();
            eprintln!("world/{}: {} events", driver, c);
        }
        "scenario" => {
            // input: one scenario per line ({"tag":..,"setup":..,"ops":[..]}); output: trace events
            let inp = arg(&args, "--in").expect("--in FILE");
            let text = std::fs::read_to_string(inp).expect("read input");
            let mut total = 0;
            for (i, line) in text.lines().filter(|l| !l.trim().is_empty()).enumerate() {
                let sc: serde_json::Value = serde_json::from_str(line).expect("json");
                let tag = sc["tag"].as_str().map(|s| s.to_string()).unwrap_or(format!("sc{}", i));
                total += world::run_scenario(&sc, &mut out, &tag).expect("write");
            }
            out.flush().unwrap();
            eprintln!("scenario: {} events", total);
        }
        "replay-math" => {
            // input: NDJSON of events (each with "k" and "args"); output: the re-executed events
            let inp = arg(&args, "--in").expect("--in FILE");
            let text = std::fs::read_to_string(inp).expect("read input");
            for line in text.lines().filter(|l| !l.trim().is_empty()) {
                let v: serde_json::Value = serde_json::from_str(line).expect("json");
                let kind = v["k"].as_str().expect("k").to_string();
                let a: Vec<String> = v["args"].as_array().expect("args").iter().map(|x| x.as_str().unwrap().to_string()).collect();
                writeln!(out, "{}", math::replay(&kind, &a)).unwrap();
            }
            out.flush().unwrap();
        }
        "bindings" => {
            // which function-level event kinds this build can produce
            for k in ["swap", "swapmono", "reverse", "share", "maxspread", "slip", "arith", "text"] {
                writeln!(out, "{} {}", k, if math::bound(k) { "bound" } else { "unbound" }).unwrap();
            }
            out.flush().unwrap();
        }
        _ => {
            eprintln!("usage: verif-harness math|world ... --seed S --n N --out FILE");
            std::process::exit(2);
        }
    }
}
